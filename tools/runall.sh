#!/bin/bash
# Run every claimed check's quick tier with the given seed (default 1); summary lines only.
cd "$(dirname "$0")/.." || exit 2
seed=${1:-1}
for p in $(/venv/bin/python -c "import json; print(' '.join(c['property_id'] for c in json.load(open('MANIFEST.json'))['checks']))"); do
  VERIF_SEED=$seed ./check $p --tier quick --no-evidence 2>&1 | grep -E "^(VIOLATION|HARNESS|$p tier)" | cut -c1-220
done
