#!/usr/bin/env python3
"""Run ONE generated case by its run seed: tools/runseed.py C06 le 6045939699911842010 [tier]"""
import importlib, os, sys, time
HERE = os.path.dirname(os.path.dirname(os.path.abspath(__file__)))
sys.path.insert(0, HERE); sys.path.insert(0, os.environ.get('BUMBLE_SRC', '/repo'))
from bsim import rng, runner
prop, scen, seed = sys.argv[1], sys.argv[2], int(sys.argv[3])
tier = sys.argv[4] if len(sys.argv) > 4 else 'thorough'
mod = importlib.import_module(runner.PROPS[prop])
gen = mod.SCENARIOS[scen][0]
case = gen(rng.derive(seed, 'gen'), tier, seed)
case['scenario'] = scen; case['seed'] = seed
case = runner.normalise(case)
t0 = time.time()
r = runner.run_case(mod, case)
print('wall', round(time.time() - t0, 2), 'harness_error', r.get('harness_error'), 'violations', r['violations'][:3], 'steps', r.get('steps'), 'vt', r.get('vt'))
if '--case' in sys.argv:
    print(case)
