#!/venv/bin/python
"""Regenerate MANIFEST.json from the table below (keeps it valid while properties are added)."""
import json
import os
import sys

HERE = os.path.dirname(os.path.dirname(os.path.abspath(__file__)))

NA = {
    'C01': 'Pure function of its input (bytes <-> object for every registered HCI class): no schedule, clock, peer, I/O or fault in it; deciding it is input generation, not deterministic simulation.',
    'C14': 'Crypto primitives are pure functions of their arguments; agreement of two back ends on all inputs is differential input generation, not simulation (the off-curve-key clause with a live peer is exercised as a fault of C13).',
    'C18': 'Codec round trips above HCI are pure functions; the history part (process-wide UUID registry) is sequential deterministic state with no interleaving, time, fault or second party.',
}

# property -> (category, technique, level text, level_note, design_ref)
CLAIMED = {
    'C04': ('exploration', 'deterministic simulation: seeded op/fault histories against a reference credit ledger',
            'Seeded search over histories of enqueue/complete/over-report/unknown-handle/flush/drain (queue alone and through a real Host) and write/pause/resume/progress (pipe), checked after every step against a scripted controller that is the ground truth for buffer occupancy. Sampling, not proof.',
            'Trusted: the stub controller (frees min(reported, outstanding)); per-connection order only; virtual-time asyncio loop.', 'DESIGN.md §5 C04'),
}

CLAIMED['C03'] = ('exploration', 'deterministic simulation: seeded concurrent command programs + link situations, wire monitors at the host/controller boundary',
    'Seeded search: 1-6 concurrent callers x commands from every registered class (values from field specs) and unregistered opcodes x host<->controller latency x controller capability subsets; directed procedure runs in link situations (peer advertising/silent/removed mid-procedure/cancel/unknown handle). Monitors: <=1 outstanding, exactly one Complete/Status per command with the right opcode, every awaitable resolves, accepted procedures conclude. Sampling, not proof. Boundary opcodes (0x0000, 0xFFFF, 0x0400, 0xFC00) are among the unregistered ones; a caller that gets an exception instead of a reply is a violation.',
    'Trusted: the latency channels; HCI event parsing in the monitor; completion table written from Core Vol 4 Part E (DESIGN.md App. B). CIS set-up procedures are generated only as random commands, not as a directed situation.', 'DESIGN.md §5 C03')

CLAIMED['C05'] = ('exploration', 'deterministic simulation: seeded buffer geometries, PDU sequences and fragment faults between two full stacks',
    'Seeded search over ACL buffer length/count on both controllers x LE/BR-EDR x PDU length sequences (boundary family around k*F, 65531/65532/65535) in both directions x latency profiles, with legal re-fragmentation towards the receiving host and malformed fragment sequences (continuation without start, data beyond length, start over start, truncated start, stray continuation) injected between PDUs at host- and controller-side assemblers. Wire monitor on every host->controller ACL packet (length, PB flag, handle, in-flight<=count); receiver sees exactly the sent (cid,payload) sequence. ISO: every emitted fragment checked by an independent parser. Sampling, not proof. In 30% of the ACL cases a second connection of the sending device is disconnected while fragments are queued (the shared data packet queue is flushed mid-transfer).',
    'Trusted: the refragmenter keeps the 4-byte L2CAP header in the start fragment (conservative reading); fragment sizes >= 27; ISO path uses a scripted sink because the virtual controller ignores ISO data.', 'DESIGN.md §5 C05')

CLAIMED['C06'] = ('exploration', 'deterministic simulation: seeded multi-device histories on the virtual link with latency, reference model of live connections',
    'Seeded search over 2-5 full stacks on one LocalLink: advertise (public/random own address, legacy/extended per node, drawn payloads), scan (active/passive), connect (public/random), data on a test fixed channel, disconnect by either/both sides, an incoming connection while an outgoing one is pending, two centrals racing for one advertiser, connect to a silent address; BR/EDR connect/transfer/disconnect. Oracle: the caller gets the connection to the requested address in the central role, the peer reports exactly one connection with matching addresses, no third party sees anything, handles live and distinct, payloads delivered exactly once in order to that connection only, disconnection reported on both sides, scan reports carry the advertiser data byte for byte. Sampling, not proof. BR/EDR histories include two outgoing connections of one device in flight at once and a second, LE link (central with its public address) between two devices that already share a BR/EDR link, with data on both.',
    'Trusted: per-receiver FIFO air model; privacy off; scanning uses the legacy scan commands (the virtual controller implements no extended scan commands). Passive scanners are not required to see no scan responses.', 'DESIGN.md §5 C06')

CLAIMED['C09'] = ('exploration', 'deterministic simulation: seeded open/close/refuse/data histories over two links sharing one ChannelManager, link cuts at air-message boundaries',
    'Seeded search over histories of LE CoC / enhanced CoC / classic channel opens from either side, closes by either side, refused opens, data+drain, concurrent opens on two links and a link disconnection fired at a seeded message boundary of an open, close or drain, followed by reconnection and more opens. After every step: ChannelManager tables equal the model of open channels on every device and link, CIDs unique per link, next open succeeds, data flows; every awaited connect/disconnect/drain finishes. Sampling, not proof. An op issues a refused and a valid open at once, so that channels exist whose CIDs differ between the two devices.',
    'Trusted: both ends are Bumble here (peer CID allocation differing from Bumble is C07); link loss is a host-initiated disconnect by either side (the virtual controller has no supervision timeout).', 'DESIGN.md §5 C09')

CLAIMED['C07'] = ('exploration', 'deterministic simulation: seeded channel parameters and write patterns against bumble or a scripted reference peer, wire-level credit ledger',
    'Seeded search over MTU/MPS/initial credits per side, LE CoC and enhanced CoC, initiator, 1-3 channels, write-size sequences in both directions at once, latency profiles; in about half of the runs the peer is a reference LE CoC endpoint with top-down CID allocation and its own credit-return granularity. Oracle: byte streams equal in both directions, every data frame covered by a credit at the sender boundary, frame <= peer MPS, SDU <= peer MTU, credits <= 65535, transfer completes while there is wire activity (stall = 30 virtual seconds of silence), drain() returns. Sampling, not proof.',
    'Trusted: the reference peer (bsim/rawpeer.py, written from Core Vol 3 Part A); per-run data volume <= 60 KB (quick) / 200 KB (thorough).', 'DESIGN.md §5 C07')

CLAIMED['C08'] = ('exploration', 'deterministic simulation: seeded channel specs and SDU sequences over a BR/EDR link, wire-level ERTM monitor, set-up matrix',
    'Seeded search over mode (Basic/ERTM), MTU, MPS (down to 23), transmit window 1..63, FCS requested by neither/one/both ends, SDU size sequences in both directions including >64 segments and exactly k*MPS, latency profiles. Wire monitor at each sender boundary: TxSeq advances by one mod 64, unacknowledged I-frames <= the window the peer advertised, SAR pattern consistent with the announced SDU length, payload <= peer MPS, FCS verified by an independent CRC-16; every SDU delivered once, intact, in order. Set-up scenario: all pairs of (mode, FCS request, FCS feature) incl. mismatching modes must end with both ends open in the same mode and FCS setting (and data flows) or both closed with an error to the caller; never a hang or a configuration ping-pong. Sampling, not proof.',
    'Trusted: latency below the 2 s retransmission timer; no loss (ERTM retransmission paths are not exercised: the property speaks of order-preserving delays only); an endpoint that requests FCS has the FCS feature; peer is bumble.', 'DESIGN.md §5 C08')

CLAIMED['C10'] = ('exploration', 'deterministic simulation: seeded attribute databases and raw ATT request programs against the real server, on the fixed and on an enhanced bearer',
    'Seeded search over generated databases (services, includes, characteristics with every property mix, descriptors, 16/128-bit UUIDs, values 0..512 bytes, static and sync/async callback values, several permission masks), server MTU, one MTU exchange at an arbitrary point, and programs of raw ATT PDUs over all opcodes with valid and invalid handles, inverted ranges, empty and over-long handle sets, offsets past the end, commands, spurious confirmations, undefined opcodes, plus notify/indicate calls with delayed confirmations. Oracle: exactly one response per request (the matching opcode or an Error Response naming it), nothing for commands / confirmations / unknown non-requests, every server PDU <= the bearer ATT_MTU, at most one indication awaiting confirmation per bearer. Sampling, not proof. Confirmations may come after the server gave up on its indication (35 s): nothing may be sent in reply and the next indication must go out.',
    'Trusted: the raw client obeys ATT (one request at a time, PDUs within ATT_MTU, well-formed layouts for defined opcodes - malformed ones are C17); unencrypted link.', 'DESIGN.md §5 C10')

CLAIMED['C11'] = ('exploration', 'deterministic simulation: seeded permission masks x link security phases (changed by real pairing) x every reading/writing ATT operation, canary values',
    'Seeded search: generated characteristics and descriptors each carry a unique canary and a permission mask drawn from all 256 combinations; the link goes plain -> Just-Works (encrypted) -> passkey (authenticated) -> reconnect by real SMP pairing; in every phase every read path (read, read blob, read by type, read by group type, read multiple, read multiple variable, find by type value with the exact value) and write path (write request, write command) is aimed at every attribute on the fixed or an enhanced bearer. Oracle from the property text: no server PDU carries the canary of an attribute that is not readable in that phase, no refused write changes the server-side value, a refused single-handle access is answered with an error matching a requirement that really failed. Sampling, not proof. A phase reports encryption off again after pairing (authenticated but not encrypted link); an unpaired second client issues the same read while the secured client\'s read of a dynamic value is being served.',
    'Trusted: ground truth of authenticated = association model configured by the harness; authorisation requirements are never satisfiable; under-granting is not judged. Two genuine defects are open known findings (READABLE/WRITEABLE never enforced; LE encryption implies authenticated), 18 signatures.', 'DESIGN.md §5 C11')

CLAIMED['C12'] = ('exploration', 'deterministic simulation: seeded databases, MTU pairs, clients/bearers and subscription sets between real client and server; scripted adversarial server for termination',
    'Seeded search over generated databases (mixed UUID widths, value lengths around k*(MTU-1) and MTU-3, static and callback values), client/server MTU 23..517, one or two clients plus an optional enhanced bearer. Oracle: every discovery API reconstructs the independently computed layout (handles, group ends, 128-bit UUID value, properties; default services taken from the server object), reads equal the current server value incl. long reads, writes are visible on the server, a push through each of the four server APIs reaches exactly the bearers subscribed for that kind, as 0x1B or 0x1D on the wire, truncated to MTU-3, and an indicating call returns only after the confirmations are on the wire. Termination: every discovery API against a scripted server (empty lists, repeated/decreasing handles, 0xFFFF, wrong response type, unexpected errors, short entries, non-advancing handles) returns or raises; the 4th identical (request, answer) pair is a non-terminating loop. Sampling, not proof. Also: discovery filtered by UUID (discover_service, discover_characteristics([uuid]), discover_descriptors on the result), a subscriber that never confirms its indication, an application that notifies as soon as the CCCD is written, and a long read racing the MTU exchange.',
    'Trusted: expected layout builder (bsim/gattdb.py); the scripted server is only as adversarial as its 10 answer kinds; discoveries still advancing after 3000 requests are inconclusive.', 'DESIGN.md §5 C12')

CLAIMED['C15'] = ('fault_enumeration', 'deterministic simulation: seeded key-store histories on a simulated file system, a crash / I/O error enumerated at every file-system step of every mutating operation',
    'For each seeded history (update/delete/delete_all/get/get_all/get_resolving_keys over 3 peers x 3 namespaces + a default-namespace instance on one file, all PairingKeys field-presence combinations) a fault-free run is compared operation by operation with a reference map (replace and overlay update semantics side by side, default-namespace rule from the class docstring), then the history is re-run once per file-system step of every mutating operation with a process crash before/after that step or EIO/ENOSPC before it: the file must parse and equal the complete previous or complete new state of all namespaces, and the rest of the history must still behave like the model on the surviving tree. The fault space per history is enumerated completely; histories are sampled. Half of the histories use one long-lived store instance per namespace (several live instances sharing the file), half a fresh instance per operation.',
    'Trusted: SimFS process-crash model (flushed writes survive, user-space buffers do not, rename atomic, inode semantics); power-loss semantics are not claimed.', 'DESIGN.md §5 C15')

CLAIMED['C16'] = ('fault_enumeration', 'deterministic simulation: seeded (procedure, fault kind, latency profile, bystander connection) cases; the fault is enumerated at every air-message boundary of the procedure',
    'One awaited procedure per case out of 32 (GATT read/long read/write/discovery/subscribe/notify+read, EATT CCCD write, server indication, pair, encrypt, LE CoC connect/disconnect/drain, connection parameter update over L2CAP, remote features, pending LE and BR/EDR connect, pending disconnect, queued HCI commands, classic channel connect/disconnect, ERTM transfer, RFCOMM start/open/drain, SDP continuation query, AVDTP discover, remote name/features). A fault-free run counts the N messages the procedure exchanges over the air; the case is re-run once for every k in 0..N with a disconnection by the initiator side, by the responder side, a supervision timeout reported by both controllers, or loss of the HCI transport of either side, fired right after air message k, optionally with a second idle connection on the initiator. Oracle after quiescence + up to 60 virtual seconds: no awaited call still pending; Host.connections == Device.connections == controller tables on every reachable node (host == device behind a lost transport), both ends of each link agree, no subscription / pending indication / SMP session / L2CAP channel, identifier or request entry / queued packet remains for the dead handle, and the untouched connection is still there and answers a request. The boundary space per case is enumerated completely; cases are sampled. Further: boundaries counted at the HCI packets read by the host that loses its transport (the loss happens before any task woken by packet k has run); a host that does not read its transport during the fault (events delivered in one burst); scenario reuse: a CCCD write, the disconnection of its connection and a new connection that is given the same handle all reach the stalled server host in one burst.',
    'Trusted: supervision timeout emulated by the virtual controllers reporting Disconnection Complete (0x08); controller entries with handle 0 are pages in progress; a waiter ending with any result, error or cancellation is accepted.', 'DESIGN.md §5 C16')

CLAIMED['C17'] = ('exploration', 'deterministic simulation: seeded sequences of hostile frames injected by the simulated peer or controller into a live connection, then a reference request; wall-clock, step and call-depth guards per frame',
    'A complete victim stack with one connection receives 1-14 hostile frames on one target: ATT to its server (also with an indication awaiting confirmation), ATT to its client (also with a request pending), SMP, LE signalling, arbitrary CIDs, raw L2CAP frames with falsified length fields; classic signalling, SDP, RFCOMM, the HFP AT stream of an AG and of an HF (also with a command pending), AVDTP, AVCTP (the attacker opens these channels through a real bumble client and then writes garbage into them); HCI event / ACL / ISO / SCO / unknown packets injected into the controller->host channel. Frames are random bytes, valid PDUs of per-protocol corpora that are truncated, extended, bit-flipped, concatenated or get their length fields falsified, deeply nested SDP elements, AVDTP/AVCTP fragment-flag permutations, AT lines with unbalanced quotes/parentheses and missing terminators. Oracle: each frame is processed within 8 s wall / 60000 loop steps / 300 nested Python calls (sys.setprofile meter, so a RecursionError that bumble swallows is seen too); the connection stays in Device.connections and Host.connections; a request that was pending during the attack concludes; the reference request (ATT read, second indication, Pairing Request, LE credit based connection, L2CAP echo, SDP search, echo over the DLC, AT+CIND?, an HF command, AVDTP discover, AVCTP command, HCI command + GATT read) is answered as before the attack. Sampling, not proof. Variant att_client_late: stray responses of other kinds while a read is pending, then the late answer, then at once the next request.',
    'Trusted: the classification of legitimate closes (well-formed Disconnection/Connection Complete for the live handle, Hardware Error, FCS-valid SABM/DISC/DM and PN/MSC/FCon/FCoff/CLD) for which the reference is skipped; exceptions contained at the simulated transport boundary are ordinary.', 'DESIGN.md §5 C17')

CLAIMED['C13'] = ('exploration', 'deterministic simulation: seeded pairing configurations, user answers with delays, in-flight SMP corruption, reconnection in both roles; association-model table enumerated',
    'All 100 cells of the association-model table (5x5 IO capabilities x legacy/SC x MITM) are walked in every tier; seeded search over SC/MITM/bonding and 4-bit key-distribution masks per side, central- or peripheral-initiated pairing, user answers (reject, wrong passkey, compare no, confirm no, delays, passkey 000000), one SMP PDU corrupted in flight, a second pairing on the same connection, then reconnection in the same and in swapped roles with encrypt(). Oracle: pair() and the responder event both conclude, both succeed or both fail, link encrypted, association model and display/input roles equal the transcribed Table 2.8, key authenticated flags <=> passkey/numeric comparison, SC LTKs equal, legacy copies equal what the peer generated, no keys after a forced failure, and on reconnection the key in LE Enable Encryption equals the key in the peripheral Long Term Key Request Reply. Sampling, not proof. A second pairing on the same connection (20% of the seeded cases) must have the same outcome on both sides.',
    'Trusted: transcription of Table 2.8 (DESIGN.md App. C); identity address type = static random so that bonded keys are found by address; OOB and CTKD over BR/EDR not covered; LTK request event injected because the virtual controller grants encryption by itself.', 'DESIGN.md §5 C13')

CLAIMED['C19'] = ('exploration', 'deterministic simulation: seeded SDP record sets/queries with 1-3 simultaneous clients, AVDTP/AVCTP fragment sequences with injected fragment faults, AVDTP stream procedure sequences',
    'Four seeded scenario families over real L2CAP on BR/EDR links: SDP client transactions against an independent matcher (every UUID of the pattern, nested sequences, 16/128-bit forms) and attribute filter, for client MTU 48..65535 and 1-3 clients connected and querying at once; AVDTP send_message <-> MessageAssembler in both directions for payloads from 0 to 255 fragments (every packet <= peer MTU, byte-identical reassembly) with a dropped/duplicated/mislabelled fragment on one message of a sequence costing only that message; AVCTP reassembly of spec-conformant fragments from a scripted peer with the same faults; AVDTP configure/open/start/suspend/close/abort sequences (legal and illegal) leaving source and sink in the same state as a reference machine. Sampling, not proof. SDP queries may be abandoned (cancelled) right after the request went out, followed at once by the next query; scenario slow_acceptor: an AVDTP transaction answered late while 0-40 later transactions complete on the same channel.',
    'Trusted: the reference matcher/filter and fragmenters in props/c19.py; SDP answers needing more than 60 continuation rounds are not compared; codec used to size expected SDP answers. Open findings: AVCTP assembler (fix conflicts with an existing test), no initiator-side Stream.abort.', 'DESIGN.md §5 C19')

CLAIMED['C20'] = ('exploration', 'deterministic simulation: seeded RFCOMM parameters, write patterns and open/close orders with a wire-level frame/credit monitor; HFP feature-set matrix; scripted raw AT lines',
    'Seeded search over RFCOMM maximum frame size (23..32767) and initial credits (1..7) per side, L2CAP MTU, 1-3 data links, write sizes in both directions at once, closing from either end and re-opening, multiplexer shutdown; an independent frame parser on each sender boundary checks information size <= the receiver announced maximum and data frames <= credits, streams must be byte-identical and complete while there is wire activity, DLC/multiplexer states and tables must correspond after set-up and teardown. HFP: initiate_slc() completes for drawn HF/AG feature subsets, indicator, codec and call-hold sets with both sides holding the same features, indicators, codecs, call-hold set and HF indicators, the AG reporting slc_complete once; every raw AT line (all commands the HF role emits, plus variants with 0-4 extra/missing parameters) is concluded by exactly one OK / ERROR / +CME ERROR. Sampling, not proof. After the SLC the AG reports indicator changes, some crossing a pending HF command; both sides must hold the same indicator values afterwards.',
    'Trusted: the frame parser in props/c20.py; negotiated maximum per direction = receiver announced frame size; per-run data volume <= 60 KB (quick).', 'DESIGN.md §5 C20')

CLAIMED['C02'] = ('exploration', 'deterministic simulation: seeded packet streams x enumerated chunkings through every framer; client cut-off at every byte position on the server transports',
    'Seeded packet sequences of all five HCI types with boundary body lengths; for each stream every single cut (streams up to 2000 bytes) and every pair of cuts (up to 64 bytes, 300 in thorough), 1-byte chunks, one chunk and seeded k-cuts are fed to the push parser and checked after every chunk against an independent reference framer (none early, merged, late, twice or lost); the blocking reader, the asynchronous reader (chunks arriving at seeded virtual times) and the USB per-endpoint splitters must yield the same packets; an unknown type byte (last of a chunk / alone / mid-chunk) must be reported and later data framed correctly; on the TCP, UNIX and WebSocket server transports a first client is cut off at every byte position of its last packet and a second client must be framed from its first byte. Streams are sampled, chunkings within the stated bounds are enumerated.',
    'Trusted: reference framer in props/c02.py; real sockets/websockets replaced by the simulator (protocol callbacks / fake connection objects); libusb threads not simulated (only the splitter classes).', 'DESIGN.md §5 C02')

NOT_YET = {}


def main():
    props = [json.loads(l) for l in open(os.path.join(HERE, 'properties.jsonl'))]
    checks = []
    na = []
    for p in props:
        pid = p['id']
        if pid in CLAIMED:
            cat, tech, text, note, ref = CLAIMED[pid]
            checks.append({
                'property_id': pid,
                'quick_cmd': f'./check {pid} --tier quick',
                'thorough_cmd': f'./check {pid} --tier thorough',
                'evidence_file': f'evidence/{pid}.json',
                'replay_cmd_template': './check --replay {path}',
                'engine': 'bsim',
                'level_claimed': {'category': cat, 'text': text, 'design_ref': ref},
                'level_note': note,
                'technique': tech,
            })
        elif pid in NA:
            na.append({'property_id': pid, 'reason': NA[pid]})
        else:
            na.append({'property_id': pid, 'reason': NOT_YET.get(pid, 'Simulation check designed (DESIGN.md §5) but not built yet in this tree; not claimed until it exists.')})
    m = {
        'version': 1,
        'setup_cmd': './check --selfcheck',
        'hooks': {
            'guard': 'GOOGLE_BUMBLE_VERIF',
            'enable': 'no source hooks: every seam (event loop, transports, link entry points, secrets, file access) is reached from outside; checks import bumble from /repo working tree',
            'baseline_off_cmd': 'cd /repo && /venv/bin/python -m pytest -ra -q -p no:cacheprovider --timeout=900 --continue-on-collection-errors',
            'source_commits': [],
            'add_only': True,
        },
        'engines': [{
            'name': 'bsim', 'path': 'bsim/',
            'serves_properties': sorted(CLAIMED),
            'kind_free_text': 'deterministic simulation with fault injection: own virtual-time asyncio loop (DetLoop), seeded order-preserving latency channels on the HCI and link seams, seeded op/fault generators, reference-model oracles, ddmin shrinking, replay files',
        }],
        'checks': checks,
        'not_applicable': na,
        'notes': 'Exit 0 = nothing unlisted found; exit 1 = VIOLATION lines; exit 2 = harness error (never a verdict). Known findings: known_findings.json. See DESIGN.md.',
    }
    with open(os.path.join(HERE, 'MANIFEST.json'), 'w') as f:
        json.dump(m, f, indent=1)
    print('claimed', sorted(CLAIMED), 'na', [x['property_id'] for x in na])


if __name__ == '__main__':
    main()
