#!/bin/bash
# Evaluate one seeded breaking change against one or more checks WITHOUT touching /repo:
#   tools/seeded_eval.sh <patch.diff> <tier> <PROP> [<PROP> ...]
# A scratch copy of /repo/bumble is patched under /tmp, the checks import bumble from it (BUMBLE_SRC), the copy is removed.
cd "$(dirname "$0")/.." || exit 2
diff=$1; tier=$2; shift 2
tmp=$(mktemp -d /tmp/mutsrc.XXXXXX)
cp -r /repo/bumble "$tmp/bumble"
if ! (cd "$tmp" && patch -p1 -s --no-backup-if-mismatch < "$diff"); then echo "PATCH-FAILED $diff"; rm -rf "$tmp"; exit 2; fi
for p in "$@"; do
  out=$(BUMBLE_SRC=$tmp timeout 3000 ./check "$p" --tier "$tier" --no-evidence --no-shrink 2>&1)
  echo "$out" | grep -E "^$p tier" | sed "s|^|[$(basename "$(dirname "$diff")")/$(basename "$diff")] |"
  echo "$out" | grep -E "signature=" | grep -v KNOWN | cut -c1-200 | head -5
  echo "$out" | grep -E "^HARNESS" | head -3
done
rm -rf "$tmp"
