#!/bin/bash
# Thorough tier of every claimed check, one after the other, with the given seed; new signatures only.
cd "$(dirname "$0")/.." || exit 2
seed=${1:-20260923}; shift
props=${@:-$(/venv/bin/python -c "import json; print(' '.join(c['property_id'] for c in json.load(open('MANIFEST.json'))['checks']))")}
mkdir -p out/soak
for p in $props; do
  VERIF_SEED=$seed timeout 3400 ./check $p --tier thorough --no-evidence --no-shrink > out/soak/$p.$seed.log 2>&1
  echo "== $p exit=$? $(grep -E "^$p tier" out/soak/$p.$seed.log | cut -c1-200)"
  grep -E "signature=|^HARNESS" out/soak/$p.$seed.log | cut -c1-260
done
