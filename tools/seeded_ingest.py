#!/usr/bin/env python3
"""Ingest seeded breaking changes produced by sub-agents (/tmp/wt_out/<P>/{A,B}.diff, demo_*.py, meta.json, confirm.txt)
into /verif/seeded/<P>-<id>/ (patch.diff, demo.py, meta.json) and evaluate each against its property's check (and optional others).
Usage: tools/seeded_ingest.py [--src /tmp/wt_out] [--extra C16,C17] [P ...]"""
import json
import os
import re
import shutil
import subprocess
import sys

HERE = os.path.dirname(os.path.dirname(os.path.abspath(__file__)))


def evaluate(diff, prop, tier='quick'):
    out = subprocess.run([os.path.join(HERE, 'tools', 'seeded_eval.sh'), diff, tier, prop], capture_output=True, text=True).stdout
    m = re.search(r'runs=(\d+).*known=(\d+) new=(\d+) exit=(\d+)', out)
    sigs = re.findall(r'signature=(\S+)', out)
    return {'tier': tier, 'runs': int(m.group(1)) if m else None, 'new_violations': int(m.group(3)) if m else None, 'exit': int(m.group(4)) if m else None,
            'caught': bool(m and int(m.group(3)) > 0), 'signatures': sigs[:5]}


def main():
    args = sys.argv[1:]
    src = '/tmp/wt_out'
    extra = []
    if '--src' in args:
        k = args.index('--src'); src = args[k + 1]; del args[k:k + 2]
    if '--extra' in args:
        k = args.index('--extra'); extra = args[k + 1].split(','); del args[k:k + 2]
    props = args or sorted(os.listdir(src))
    for p in props:
        d = os.path.join(src, p)
        try:
            metas = {m['id']: m for m in json.load(open(os.path.join(d, 'meta.json')))}
        except Exception as e:
            print(p, 'no meta.json', e)
            continue
        confirm = {}
        if os.path.exists(os.path.join(d, 'confirm.txt')):
            for ln in open(os.path.join(d, 'confirm.txt')):
                m = re.match(r'(\w) tests=\[(.*)\] demo_mutant_exit=(\d+) demo_clean_exit=(\d+)', ln.strip())
                if m:
                    confirm[m.group(1)] = {'tests': m.group(2), 'demo_exit_with_change': int(m.group(3)), 'demo_exit_on_clean_tree': int(m.group(4))}
        for mid, meta in metas.items():
            diff = os.path.join(d, f'{mid}.diff')
            if not os.path.exists(diff):
                continue
            dst = os.path.join(HERE, 'seeded', f'{p}-{mid}')
            os.makedirs(dst, exist_ok=True)
            shutil.copy(diff, os.path.join(dst, 'patch.diff'))
            if os.path.exists(os.path.join(d, f'demo_{mid}.py')):
                shutil.copy(os.path.join(d, f'demo_{mid}.py'), os.path.join(dst, 'demo.py'))
            old = {}
            if os.path.exists(os.path.join(dst, 'meta.json')):
                old = json.load(open(os.path.join(dst, 'meta.json')))
            res = dict(old.get('checks', {}))
            for q in [p] + extra:
                res[q] = evaluate(os.path.join(dst, 'patch.diff'), q)
                print(f'{p}-{mid} vs {q}: caught={res[q]["caught"]} new={res[q]["new_violations"]} {res[q]["signatures"][:2]}', flush=True)
            out = {'id': f'{p}-{mid}', 'property': p, 'origin': 'fresh sub-agent given only the property record and a scratch worktree', 'files': meta.get('files'),
                   'summary': meta.get('summary'), 'breaks': meta.get('breaks'), 'needs': meta.get('needs'), 'confirmed_in_scratch_worktree': confirm.get(mid),
                   'first_evaluation': old.get('first_evaluation'), 'checks': res}
            json.dump(out, open(os.path.join(dst, 'meta.json'), 'w'), indent=1)


if __name__ == '__main__':
    main()
