#!/usr/bin/env python3
"""Regenerate the table of DESIGN.md §6.1 from known_findings.json (one row per property x commit/status x what)."""
import json
import os
import re

HERE = os.path.dirname(os.path.dirname(os.path.abspath(__file__)))
d = json.load(open(os.path.join(HERE, 'known_findings.json')))
rows = {}
for e in d:
    disp = f"fixed `{e['commit']}`" if e['status'] == 'fixed' else '**open**'
    key = (e['property'], disp, e['what'])
    rows.setdefault(key, []).append(e['signature'])
lines = ['| prop | disposition | what failed |', '|---|---|---|']
for (p, disp, what), sigs in sorted(rows.items(), key=lambda kv: (kv[0][0], kv[0][1].startswith('**'), kv[0][1], kv[0][2])):
    pre = ''
    if disp.startswith('**'):
        pre = ', '.join(f'`{x}`' for x in sorted(sigs)).replace('|', '/') + ' — '
    lines.append(f'| {p} | {disp} | {pre}{what.replace("|", "/")} |')
path = os.path.join(HERE, 'DESIGN.md')
s = open(path).read()
m = re.search(r'(\| prop \| disposition \| what failed \|\n\|---\|---\|---\|\n(?:\|.*\n)+)', s)
s = s[:m.start()] + '\n'.join(lines) + '\n' + s[m.end():]
open(path, 'w').write(s)
fixed = len({(e['property'], e['commit']) for e in d if e['status'] == 'fixed'})
print(f'{len(lines) - 2} rows; {fixed} distinct (property, fix commit); {sum(1 for e in d if e["status"] != "fixed")} open signatures')
