"""C08 — classic L2CAP channels (Basic / ERTM) deliver every SDU once, in order; window, TxSeq, set-up.

Real: ClassicChannel configuration state machine, EnhancedRetransmissionProcessor (incl. its two timers in
virtual time), FCS generation, ChannelManager, everything below over a BR/EDR link. Stub: none (peer is bumble).
"""
from __future__ import annotations

import struct

from bsim.l2tap import L2capTap
from bsim.sim import HarnessError, Sim, World, describe_task, result

PROPERTY = 'C08'
PLAN = {
    'quick': [('transfer', 1800), ('setup', 1500)],
    'thorough': [('transfer', 60000), ('setup', 40000)],
}
WALL_CAP = {'quick': 150, 'thorough': 1500}
EVIDENCE = {
    'level': 'exploration',
    'rule': ('transfer: one channel over a BR/EDR link, both ends in the same drawn mode (Basic or ERTM), MTU from '
             '{48,64,672,2048,65535}, MPS from {23,48,1010,65535}, transmit window 1..63, FCS requested by neither/one/both '
             'ends, SDU size sequences in both directions including SDUs of more than 64 segments and exactly k*MPS; '
             'setup: all pairs of (mode, FCS request, FCS feature) on the two ends including mismatching modes. Non-trivial: '
             'the transmit window filled up or sequence numbers wrapped (transfer) / the two ends differ in mode or FCS '
             'capability (setup); distinct = distinct (modes, fcs, window class, per-direction I-frame counts, outcome).'),
    'real': ['bumble.l2cap.ClassicChannel', 'bumble.l2cap.EnhancedRetransmissionProcessor', 'bumble.l2cap.ChannelManager',
             'bumble.utils.crc_16 (checked against an independent CRC-16)', 'device/host/controller/link'],
    'stub': ['latency channels only'],
    'assumptions': ['latency stays below the 2 s ERTM retransmission timer (order-preserving delay, no loss)',
                    'the SDU-length field of a start frame does not count against MPS',
                    'the window bounding X\'s unacknowledged I-frames is the TxWindow in Y\'s configure request'],
}

PSM = 0x1005
PROFILES = ['zero', 'lan', 'radio', 'slow', 'skewed', 'burst', 'burst-radio']


def crc16(data: bytes) -> int:
    """Independent bitwise CRC-16 (x^16+x^15+x^2+1, LSB first, init 0), Core Vol 3 Part A 3.3.5."""
    reg = 0
    for byte in data:
        for bit in range(8):
            inbit = (byte >> bit) & 1
            fb = (reg & 1) ^ inbit
            reg >>= 1
            if fb:
                reg ^= 0xA001
    return reg


def _side(rng, mode=None):
    return {
        'mode': mode if mode is not None else rng.choice(['basic', 'ertm']),
        'mtu': rng.choice([48, 64, 672, 2048, 65535]),
        'mps': rng.choice([23, 48, 1010, 65535, rng.randint(23, 200)]),
        'window': rng.choice([1, 2, 3, 10, 62, 63, rng.randint(1, 63)]),
        'fcs': rng.random() < 0.4,
        'fcs_feature': True,
        # MaxTransmit as announced in the retransmission option (0: no limit); it sits next to the window in that option
        'max_retx': rng.choice([1, 1, 0, 3, 20, 255]),
    }


def _wedged_after_poll(sim, ch):
    """An ERTM sender whose retransmission timer expired polled the peer (RR), got no answer before the monitor timer expired, and
    gave up ('Max retransmission exceeded'): the expired monitor timer stays set, which blocks its output for good, and the channel
    is not closed either. With MaxTransmit 0 it polls again and again instead, equally unanswered and equally blocked.
    Returns the index of such an end, or None."""
    for i, e in enumerate(ch):
        pr = getattr(e, 'processor', None)
        h = getattr(pr, '_monitor_handle', None)
        if h is None:
            continue
        expired = h.cancelled() or h.when() <= sim.loop.time()
        polls = getattr(pr, '_num_receiver_ready_polls_sent', 0)
        limit = getattr(pr, 'peer_max_retransmission', 0)
        if polls >= 1 and ((expired and limit > 0 and polls >= limit) or (limit == 0 and polls >= 2)):
            # gave up (MaxTransmit reached), or MaxTransmit is 0 and it has polled twice or more without an answer: it polls for ever
            return i
    return None


def _proc_state(ch):
    out = []
    for e in ch:
        pr = getattr(e, 'processor', None)
        d = {}
        for k, v in sorted(vars(pr).items()) if pr is not None else []:
            if isinstance(v, (int, bool)):
                d[k.lstrip('_')] = v
            elif isinstance(v, (list, tuple, dict)) or hasattr(v, '__len__'):
                try:
                    d[k.lstrip('_')] = f'len={len(v)}'
                except Exception:
                    pass
            elif v is None:
                d[k.lstrip('_')] = None
        out.append(str(d))
    return ' | '.join(out)


def gen_transfer(rng, tier, seed):
    mode = rng.choice(['basic', 'ertm', 'ertm'])
    a, b = _side(rng, mode), _side(rng, mode)
    sdus = []
    total = 0
    cap = 90000 if tier == 'quick' else 250000
    for _ in range(rng.randint(1, 30)):
        d = rng.randrange(2)
        peer = b if d == 0 else a
        mtu = peer['mtu']
        mps = peer['mps'] if mode == 'ertm' else mtu
        fam = [0, 1, mps - 1, mps, mps + 1, 2 * mps, 3 * mps, 65 * mps, 64 * mps + 1, mtu, mtu - 1, rng.randint(0, 700)]
        size = max(0, min(rng.choice(fam), mtu, 30000))
        if total + size > cap:
            continue
        total += size
        sdus.append([d, size])
    case = {'a': a, 'b': b, 'profile': rng.choice(PROFILES), 'sdus': sdus, 'burst': rng.random() < 0.7, '_lists': ['sdus']}
    # afterwards, in some runs: request/response exchanges, more of them than the smaller window holds
    case['echo'] = (min(a['window'], b['window']) + rng.choice([1, 3, 10])) if rng.random() < 0.25 else 0
    # the air goes quiet for a while right after the last write (both directions, nothing lost, order kept): the acknowledgements are
    # late enough for the ERTM retransmission timer (2 s) to expire, the sender polls, and once the air is back it carries on
    case['tail_stall'] = rng.choice([2.5, 3.0, 6.0]) if mode == 'ertm' and rng.random() < 0.2 else 0
    return case


class ErtmWire:
    """What node X sends on its channel, seen at X's own HCI boundary."""

    def __init__(self, sim, node, label):
        self.sim = sim
        self.label = label
        self.cfg = None
        L2capTap(sim, node, self.on_pdu)

    def bind(self, scid, dcid, mode, peer_window, peer_mps, fcs):
        self.cfg = {'scid': scid, 'dcid': dcid, 'mode': mode, 'window': peer_window, 'mps': peer_mps, 'fcs': fcs}
        self.next_tx = 0
        self.acked = 0
        self.iframes = 0
        self.sdu_left = None
        self.wrapped = False

    def on_pdu(self, direction, handle, cid, payload):
        c = self.cfg
        if c is None:
            return
        if direction == 'out' and cid == c['dcid']:
            frame = payload
            if c['fcs']:
                if len(frame) < 2:
                    self.sim.violation_once('fcs', f'ertm:frame-too-short-for-fcs:{self.label}', '')
                    return
                body, fcs = frame[:-2], struct.unpack('<H', frame[-2:])[0]
                want = crc16(struct.pack('<HH', len(frame), cid) + body)
                if fcs != want:
                    self.sim.violation_once('fcs', f'fcs-mismatch:{c["mode"]}:{self.label}', f'frame carries {fcs:#06x}, CRC-16 of header+payload is {want:#06x}')
                frame = body
            if c['mode'] != 'ertm':
                return
            if len(frame) < 2:
                self.sim.violation_once('ctl', f'ertm:frame-without-control-field:{self.label}', '')
                return
            ctl = struct.unpack_from('<H', frame, 0)[0]
            if ctl & 1:
                return  # S-frame
            txseq = (ctl >> 1) & 0x3F
            sar = (ctl >> 14) & 3
            self.iframes += 1
            if txseq != self.next_tx:
                self.sim.violation_once('txseq', f'ertm:txseq-gap:{self.label}', f'TxSeq {txseq}, expected {self.next_tx}')
            self.next_tx = (txseq + 1) % 64
            if self.next_tx == 0:
                self.wrapped = True
                self.sim.probe('txseq_wrapped')
            outstanding = (self.next_tx - self.acked) % 64
            if self.iframes >= 64 and outstanding == 0:
                outstanding = 64
            if outstanding >= c['window']:
                self.sim.probe('window_full')
            if outstanding > c['window']:
                self.sim.violation_once('window', f'ertm:window-exceeded:{self.label}', f'{outstanding} unacknowledged I-frames, peer window is {c["window"]}')
            info = frame[2:]
            if sar == 1:  # start
                if len(info) < 2:
                    self.sim.violation_once('sar', f'ertm:start-frame-without-sdu-length:{self.label}', '')
                    return
                if self.sdu_left is not None:
                    self.sim.violation_once('sar', f'ertm:start-inside-sdu:{self.label}', '')
                self.sdu_left = struct.unpack_from('<H', info, 0)[0]
                info = info[2:]
                self.sdu_left -= len(info)
            elif sar == 0:
                if self.sdu_left is not None:
                    self.sim.violation_once('sar', f'ertm:unsegmented-inside-sdu:{self.label}', '')
            else:
                if self.sdu_left is None:
                    self.sim.violation_once('sar', f'ertm:continuation-without-start:{self.label}', '')
                    return
                self.sdu_left -= len(info)
                if sar == 2:  # end
                    if self.sdu_left != 0:
                        self.sim.violation_once('sar', f'ertm:sdu-length-mismatch-at-end:{self.label}', f'{self.sdu_left} bytes off')
                    self.sdu_left = None
                elif self.sdu_left <= 0:
                    self.sim.violation_once('sar', f'ertm:continuation-past-sdu-length:{self.label}', '')
            if len(info) > c['mps']:
                self.sim.violation_once('mps', f'ertm:payload-exceeds-peer-mps:{self.label}', f'{len(info)} > {c["mps"]}')
        elif direction == 'in' and cid == c['scid'] and c['mode'] == 'ertm':
            frame = payload[:-2] if c['fcs'] else payload
            if len(frame) >= 2:
                ctl = struct.unpack_from('<H', frame, 0)[0]
                req = (ctl >> 8) & 0x3F
                # ReqSeq acknowledges everything before it (only move forward)
                if (req - self.acked) % 64 <= (self.next_tx - self.acked) % 64 or self.iframes >= 64:
                    self.acked = req


def _spec(l2cap, s):
    mode = l2cap.TransmissionMode.ENHANCED_RETRANSMISSION if s['mode'] == 'ertm' else l2cap.TransmissionMode.BASIC
    return l2cap.ClassicChannelSpec(psm=PSM, mtu=s['mtu'], mps=s['mps'], tx_window_size=s['window'], max_retransmission=s.get('max_retx', 1), mode=mode, fcs_enabled=s['fcs'])


def _world(sim, case):
    from bumble import l2cap
    from bumble.device import DeviceConfiguration

    cfgs = []
    for s in (case['a'], case['b']):
        cfg = DeviceConfiguration()
        feats = [l2cap.L2CAP_Information_Request.ExtendedFeatures.FIXED_CHANNELS,
                 l2cap.L2CAP_Information_Request.ExtendedFeatures.ENHANCED_RETRANSMISSION_MODE]
        if s.get('fcs_feature', True):
            feats.append(l2cap.L2CAP_Information_Request.ExtendedFeatures.FCS_OPTION)
        cfg.l2cap_extended_features = tuple(feats)
        cfgs.append(cfg)
    world = World(sim, 2, classic=True, device_configs=cfgs)
    world.power_on()
    got = []
    world[1].device.once('connection', got.append)
    c0 = sim.must(world[0].device.connect(world[1].controller.public_address, transport=0), 'classic connect')
    sim.loop.drive(lambda: bool(got), 10.0)
    sim.loop.settle()
    if not got:
        raise HarnessError('peer never saw the BR/EDR connection')
    return world, c0, got[0]


def run_transfer(case):
    from bumble import l2cap

    sim = Sim(case['seed'], case.get('profile', 'zero'), slow_node='N1')
    try:
        world, c0, c1 = _world(sim, case)
        a, b = case['a'], case['b']
        wire = [ErtmWire(sim, world[0], 'initiator'), ErtmWire(sim, world[1], 'acceptor')]
        accepted = []
        world[1].device.create_l2cap_server(_spec(l2cap, b), handler=accepted.append)
        st, t = sim.run(c0.create_l2cap_channel(spec=_spec(l2cap, a)), 60.0, step_budget=300_000)
        facts = f'{a["mode"]}:fcs={int(a["fcs"])}{int(b["fcs"])}'
        if st != 'done' or t.exception() is not None:
            why = st if st != 'done' else repr(t.exception())
            sim.violation_once('open', f'open-failed:{facts}', f'same-mode channel did not open: {why}')
            if st != 'done':
                t.cancel()
            return result(sim, nontrivial=False)
        sim.loop.settle()
        ch = [t.result(), accepted[0] if accepted else None]
        if ch[1] is None or ch[1].state != ch[1].State.OPEN:
            sim.violation_once('open', f'acceptor-not-open:{facts}', f'acceptor state {getattr(ch[1], "state", None)}')
            return result(sim, nontrivial=False)
        fcs = a['fcs'] or b['fcs']
        if ch[0].fcs_enabled != ch[1].fcs_enabled:
            sim.violation_once('fcscfg', f'fcs-setting-differs:{facts}', f'initiator {ch[0].fcs_enabled}, acceptor {ch[1].fcs_enabled}')
            return result(sim, nontrivial=False)
        fcs = ch[0].fcs_enabled
        wire[0].bind(ch[0].source_cid, ch[0].destination_cid, a['mode'], b['window'], b['mps'], fcs)
        wire[1].bind(ch[1].source_cid, ch[1].destination_cid, a['mode'], a['window'], a['mps'], fcs)
        rx = [[], []]
        ch[0].sink = lambda sdu: rx[0].append(bytes(sdu))
        ch[1].sink = lambda sdu: rx[1].append(bytes(sdu))
        want = [[], []]
        tag = 0
        for d, size in case['sdus']:
            tag += 1
            sdu = bytes(((tag * 17 + k) & 0xFF) for k in range(size))
            want[1 - d].append(sdu)
            try:
                sim.call(ch[d].write, sdu)
            except Exception as e:
                sim.violation_once('write', f'write-raised:{facts}:{type(e).__name__}', f'write({size}) raised {e!r}')
                return result(sim, nontrivial=False)
            if not case['burst']:
                sim.loop.settle(vt_budget=60.0, step_budget=2_000_000)

        if case.get('tail_stall'):
            sim.fault('air_quiet_after_last_write')
            for nd in (world[0], world[1]):
                nd.link_in.stall(case['tail_stall'])

        def done():
            return rx[0] == want[0] and rx[1] == want[1]

        st = 'timeout'
        for _ in range(400):
            before = sim.trace.n
            st = sim.loop.drive(done, vt_budget=30.0, step_budget=3_000_000)
            if st != 'timeout' or sim.trace.n == before:
                break
        sim.loop.settle(vt_budget=5.0, step_budget=1_000_000)
        for d in (0, 1):
            who = 'to-initiator' if d == 0 else 'to-acceptor'
            got, exp = rx[d], want[d]
            if got == exp:
                continue
            if len(got) < len(exp) and got == exp[:len(got)]:
                sim.violation_once('stall', f'sdu-not-delivered:{facts}:{who}:{st}', f'{len(got)} of {len(exp)} SDUs delivered')
            elif len(got) > len(exp):
                sim.violation_once('dup', f'sdu-duplicated:{facts}:{who}', f'{len(got)} delivered for {len(exp)} written')
            elif sorted(got) == sorted(exp):
                sim.violation_once('order', f'sdu-reordered:{facts}:{who}', '')
            else:
                k = next(i for i, (x, y) in enumerate(zip(got, exp)) if x != y)
                sim.violation_once('corrupt', f'sdu-corrupted:{facts}:{who}', f'SDU #{k}: got {len(got[k])} bytes, wrote {len(exp[k])}')
        # ---- request/response traffic: the acceptor's application answers every SDU from inside its sink, the initiator waits for
        # the answer before it sends the next request; the acknowledgements then travel in the answering I-frames only
        if a['mode'] == 'ertm' and not sim.violations:
            w = _wedged_after_poll(sim, ch)
            if w is not None:
                # (every SDU was delivered, but this end will never send again: reported under its own name, and the exchanges
                # below are not attempted on it)
                sim.violation_once('wedged', 'ertm:sender-wedged-after-unanswered-poll', f'{"initiator" if w == 0 else "acceptor"}: {_proc_state(ch)}')
        if case.get('echo') and not sim.violations:
            answers = []
            ch[0].sink = lambda sdu: answers.append(bytes(sdu))

            def answer(sdu):
                ch[1].write(b'A' + bytes(sdu)[:3])
            ch[1].sink = answer
            for k in range(case['echo']):
                req = bytes([k & 0xFF, 0x5A, 0xA5])
                sim.call(ch[0].write, req)
                st = sim.loop.drive(lambda: len(answers) > k, vt_budget=60.0, step_budget=1_000_000)
                if len(answers) <= k and _wedged_after_poll(sim, ch) is not None:
                    sim.violation_once('wedged', 'ertm:sender-wedged-after-unanswered-poll', f'during the exchanges: {_proc_state(ch)}')
                    break
                if len(answers) <= k:
                    sim.violation_once('echo', f'request-response-stalled:{facts}:after={"few" if k < 4 else "many"}-exchanges', f'exchange {k + 1} of {case["echo"]}: no answer ({st}); window {a["window"]}/{b["window"]}; ' + _proc_state(ch))
                    break
                if answers[k] != b'A' + req:
                    sim.violation_once('echo', f'request-response-corrupted:{facts}', f'exchange {k + 1}: {answers[k].hex()}')
                    break
            sim.probe('request_response_exchanges')
        sim.trace.shape(a['mode'], fcs, a['window'] < 4, b['window'] < 4, wire[0].iframes if a['mode'] == 'ertm' else len(want[1]),
                        wire[1].iframes if a['mode'] == 'ertm' else len(want[0]))
        nontrivial = (sim.probes['window_full'] + sim.probes['txseq_wrapped'] > 0) if a['mode'] == 'ertm' else len(case['sdus']) > 1
        return result(sim, nontrivial=nontrivial)
    finally:
        sim.close()


# --------------------------------------------------------------------------------------
def gen_setup(rng, tier, seed):
    a, b = _side(rng), _side(rng)
    # an endpoint that asks for FCS itself has the FCS feature (the contradictory configuration is not generated)
    a['fcs_feature'] = a['fcs'] or rng.random() < 0.6
    b['fcs_feature'] = b['fcs'] or rng.random() < 0.6
    return {'a': a, 'b': b, 'profile': rng.choice(PROFILES)}


def run_setup(case):
    from bumble import l2cap

    sim = Sim(case['seed'], case.get('profile', 'zero'), slow_node='N1')
    try:
        world, c0, c1 = _world(sim, case)
        a, b = case['a'], case['b']
        accepted = []
        world[1].device.create_l2cap_server(_spec(l2cap, b), handler=accepted.append)
        facts = f'{a["mode"]}->{b["mode"]}:fcs_req={int(a["fcs"])}{int(b["fcs"])}:fcs_feat={int(a["fcs_feature"])}{int(b["fcs_feature"])}'
        task = sim.loop.create_task(c0.create_l2cap_channel(spec=_spec(l2cap, a)))
        st = sim.loop.drive(task.done, vt_budget=90.0, step_budget=40_000)
        if st != 'done':
            cause = 'fcs-requested-from-peer-without-fcs-feature' if ((a['fcs'] and not b['fcs_feature']) or (b['fcs'] and not a['fcs_feature'])) else 'other'
            sim.violation_once('setup-hang', f'setup-never-ends:{cause}', f'connect did not return ({st}) for {facts}: {describe_task(task)}')
            task.cancel()
            return result(sim, nontrivial=True)
        sim.loop.settle(vt_budget=30.0, step_budget=200_000)
        sim.loop.advance(0.5)
        ini = None
        failed = task.cancelled() or task.exception() is not None
        if not failed:
            ini = task.result()
        acc = accepted[0] if accepted else None
        mgr0 = world[0].device.l2cap_channel_manager
        mgr1 = world[1].device.l2cap_channel_manager
        ini_open = ini is not None and ini.state == ini.State.OPEN
        acc_open = acc is not None and acc.state == acc.State.OPEN
        if not failed:
            if not (ini_open and acc_open):
                sim.violation_once('setup', f'setup:connect-returned-but-not-both-open:{facts}',
                                   f'initiator {ini.state.name}, acceptor {acc.state.name if acc else None}')
            else:
                if ini.mode != acc.mode or type(ini.processor) is not type(acc.processor):
                    sim.violation_once('setup', f'setup:open-in-different-modes:{facts}', f'{ini.mode.name}/{type(ini.processor).__name__} vs {acc.mode.name}/{type(acc.processor).__name__}')
                if ini.fcs_enabled != acc.fcs_enabled:
                    sim.violation_once('setup', f'setup:fcs-setting-differs:{facts}', f'initiator {ini.fcs_enabled}, acceptor {acc.fcs_enabled}')
                else:
                    # it works: one SDU each way
                    rx = [[], []]
                    ini.sink = lambda s: rx[0].append(bytes(s))
                    acc.sink = lambda s: rx[1].append(bytes(s))
                    sim.call(ini.write, b'ping-from-initiator')
                    sim.call(acc.write, b'pong-from-acceptor')
                    sim.loop.settle(vt_budget=30.0)
                    if rx != [[b'pong-from-acceptor'], [b'ping-from-initiator']]:
                        sim.violation_once('setup', f'setup:open-but-no-data:{facts}', f'{rx}')
        else:
            # both ends closed: no OPEN channel object left anywhere, nothing left in the tables
            left0 = [c for c in mgr0.channels.get(c0.handle, {}).values()]
            left1 = [c for c in mgr1.channels.get(c1.handle, {}).values()]
            if acc_open:
                sim.violation_once('setup', f'setup:caller-got-error-but-acceptor-open:{facts}', repr(task.exception() if not task.cancelled() else 'cancelled'))
            elif acc is not None and acc.state != acc.State.CLOSED:
                sim.violation_once('setup', f'setup:acceptor-stuck:{acc.state.name}:{facts}', 'caller got an error, acceptor neither open nor closed')
            elif left0 or left1:
                sim.violation_once('setup', f'setup:half-open-channel-left-in-tables:{facts}', f'initiator table {[c.state.name for c in left0]}, acceptor table {[c.state.name for c in left1]}')
        sim.trace.shape(facts, failed)
        nontrivial = a['mode'] != b['mode'] or (a['fcs'] and not b['fcs_feature']) or (b['fcs'] and not a['fcs_feature'])
        return result(sim, nontrivial=bool(nontrivial))
    finally:
        sim.close()


SCENARIOS = {'transfer': (gen_transfer, run_transfer), 'setup': (gen_setup, run_setup)}
