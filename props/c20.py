"""C20 — RFCOMM carries the exact byte stream (frame size, credits, progress, matching states); HFP negotiates consistently.

Real: rfcomm.Multiplexer / DLC / Client / Server, hfp.HfProtocol / AgProtocol, at, over real L2CAP on BR/EDR.
Stub: for the "every AT command gets one final result code" clause a scripted HF writing raw AT lines on a real DLC.
"""
from __future__ import annotations

import struct

from bsim.l2tap import L2capTap
from bsim.sim import PROFILE_NAMES, HarnessError, Sim, World, describe_task, result

PROPERTY = 'C20'
PLAN = {
    'quick': [('rfcomm', 1400), ('hfp_slc', 1200), ('hfp_at', 1200)],
    'thorough': [('rfcomm', 50000), ('hfp_slc', 40000), ('hfp_at', 40000)],
}
WALL_CAP = {'quick': 150, 'thorough': 1500}
EVIDENCE = {
    'level': 'exploration',
    'rule': ('rfcomm: maximum frame size from {23,24,127,128,1000,32767} and initial credits 1..7 per side, L2CAP MTU 48..2048, 1-3 data '
             'links on one multiplexer, write-size sequences in both directions at once, open/close orders including closing from either '
             'end and re-opening; hfp_slc: random subsets (and all single bits) of HF and AG feature flags, indicator lists, codec lists, '
             'call-hold operation sets; hfp_at: every AT command the HF role can emit plus syntactically valid variants with 0-4 extra or '
             'missing parameters, written raw by a scripted HF. Non-trivial: a sender ran out of credits or a data link was closed and '
             're-opened (rfcomm) / both sides share an optional feature (hfp_slc) / at least 5 AT lines (hfp_at); distinct = distinct '
             'parameter / feature / line-sequence digest.'),
    'real': ['bumble.rfcomm.Multiplexer', 'bumble.rfcomm.DLC', 'bumble.rfcomm.Client', 'bumble.rfcomm.Server', 'bumble.hfp.HfProtocol', 'bumble.hfp.AgProtocol', 'bumble.at', 'bumble.l2cap'],
    'stub': ['independent RFCOMM frame parser on the wire tap', 'scripted HF for raw AT lines'],
    'assumptions': ['the negotiated maximum for a direction is the receiver announced frame size', 'credit ledger evaluated at the sender boundary',
                    'byte-stream equality, not frame boundary equality'],
}


# ====================================================================================== RFCOMM
def gen_rfcomm(rng, tier, seed):
    def side():
        return {'mfs': rng.choice([23, 24, 127, 128, 1000, 32767, rng.randint(23, 400)]), 'credits': rng.randint(1, 7), 'l2cap_mtu': rng.choice([48, 64, 135, 672, 1017, 2048])}
    a, b = side(), side()
    ndlc = rng.choice([1, 1, 2, 3])
    ops = []
    total = 0
    cap = 60000 if tier == 'quick' else 200000
    open_set = set(range(ndlc))
    for _ in range(rng.randint(2, 26)):
        r = rng.random()
        if r < 0.75 and open_set:
            d = rng.choice(sorted(open_set))
            size = rng.choice([1, 2, 22, 23, 126, 127, 128, 129, 999, 1000, 1001, 5000, rng.randint(1, 3000)])
            if total + size > cap:
                continue
            total += size
            ops.append(['write', d, rng.randrange(2), size])
        elif r < 0.87 and open_set:
            d = rng.choice(sorted(open_set))
            ops.append(['close', d, rng.choice([0, 1, 0, 1, 2])])  # 2: both ends disconnect at the same time
            open_set.discard(d)
        elif r < 0.95 and len(open_set) < ndlc:
            d = rng.choice(sorted(set(range(ndlc)) - open_set))
            # ... possibly while another data link of the same multiplexer is being closed (by either end)
            c = rng.choice(sorted(open_set)) if open_set and rng.random() < 0.4 else None
            ops.append(['reopen', d, c, rng.randrange(2)])
            if c is not None:
                open_set.discard(c)
            open_set.add(d)
        else:
            ops.append(['settle'])
    case = {'a': a, 'b': b, 'ndlc': ndlc, 'ops': ops, 'shutdown': rng.random() < 0.5, 'profile': rng.choice(PROFILE_NAMES), 'late_sink': rng.random() < 0.3}
    # without a client shutdown: the multiplexer is disconnected by the initiator (0), the acceptor (1) or both ends (2) with a stagger
    case['mux_close'] = rng.choice([None, [0, 0], [1, 0], [2, 0], [2, 0], [2, rng.choice([0.0002, 0.001, 0.005])]]) if not case['shutdown'] else None
    return case


def parse_rfcomm(frame: bytes):
    """Independent parser (TS 07.10 / RFCOMM 1.1): returns dict(dlci, cr, type, pf, info) or None."""
    if len(frame) < 4:
        return None
    addr, ctl = frame[0], frame[1]
    dlci = addr >> 2
    if frame[2] & 1:
        ln = frame[2] >> 1
        off = 3
    else:
        ln = (frame[2] >> 1) | (frame[3] << 7)
        off = 4
    pf = (ctl >> 4) & 1
    typ = ctl & 0xEF
    credits = None
    if typ == 0xEF and pf and dlci != 0:
        if len(frame) < off + 1:
            return None
        credits = frame[off]
        off += 1
    info = frame[off:off + ln]
    return {'dlci': dlci, 'cr': (addr >> 1) & 1, 'type': typ, 'pf': pf, 'info': info, 'credits': credits, 'len': ln}


class RfcommWire:
    """What one node sends on its RFCOMM L2CAP channel, against the peer's announced limits."""

    def __init__(self, sim, node, label):
        self.sim = sim
        self.label = label
        self.cids = None
        self.dlcs = {}  # dlci -> dict(mfs, credits, sent)
        L2capTap(sim, node, self.on_pdu)

    def bind(self, scid, dcid):
        self.cids = (scid, dcid)

    def add(self, dlci, peer_mfs, peer_initial_credits):
        self.dlcs[dlci] = {'mfs': peer_mfs, 'credits': peer_initial_credits, 'sent': 0}

    def on_pdu(self, direction, handle, cid, payload):
        if self.cids is None:
            return
        if direction == 'out' and cid == self.cids[1]:
            lim = getattr(self, 'peer_l2cap_mtu', None)
            if lim is not None and len(payload) > lim:
                self.sim.violation_once('l2mtu', f'rfcomm:frame-exceeds-peer-l2cap-mtu:{self.label}', f'{len(payload)}-byte RFCOMM frame for a peer whose L2CAP MTU is {lim}')
            f = parse_rfcomm(payload)
            if f is None or f['type'] != 0xEF or f['dlci'] == 0:
                return
            d = self.dlcs.get(f['dlci'])
            if d is None:
                return
            if f['len'] > d['mfs'] if f['credits'] is None else f['len'] + 1 > d['mfs'] + 1:
                pass
            n = len(f['info'])
            total_info = n + (1 if f['credits'] is not None else 0)
            if total_info > d['mfs']:
                self.sim.violation_once('mfs', f'rfcomm:frame-exceeds-negotiated-size:{self.label}', f'{total_info} information bytes, peer announced {d["mfs"]}')
            if n > 0:
                d['sent'] += 1
                d['credits'] -= 1
                if d['credits'] == 0:
                    self.sim.probe('credits_hit_zero')
                if d['credits'] < 0:
                    self.sim.violation_once('credit', f'rfcomm:data-sent-without-credit:{self.label}', f'dlci {f["dlci"]}: data frame #{d["sent"]} sent with no credit')
        elif direction == 'in' and cid == self.cids[0]:
            f = parse_rfcomm(payload)
            if f is None or f['type'] != 0xEF or f['dlci'] == 0 or f['credits'] is None:
                return
            d = self.dlcs.get(f['dlci'])
            if d is not None:
                d['credits'] += f['credits']


def _classic(sim):
    world = World(sim, 2, classic=True)
    world.power_on()
    got = []
    world[1].device.once('connection', got.append)
    c0 = sim.must(world[0].device.connect(world[1].controller.public_address, transport=0), 'classic connect')
    sim.loop.drive(lambda: bool(got), 10.0)
    sim.loop.settle()
    if not got:
        raise HarnessError('peer never saw the BR/EDR connection')
    return world, c0, got[0]


def run_rfcomm(case):
    from bumble import rfcomm

    sim = Sim(case['seed'], case.get('profile', 'zero'), slow_node='N1')
    try:
        world, c0, c1 = _classic(sim)
        a, b = case['a'], case['b']
        ndlc = case['ndlc']
        accepted = {}
        muxes = []

        async def mk_server():
            srv = rfcomm.Server(world[1].device, l2cap_mtu=b['l2cap_mtu'])
            srv.on('start', muxes.append)
            for ch in range(1, ndlc + 1):
                srv.listen(lambda dlc, ch=ch: accepted.__setitem__(ch, dlc), channel=ch, max_frame_size=b['mfs'], initial_credits=b['credits'])
            return srv

        server = sim.must(mk_server(), 'rfcomm server')
        client = rfcomm.Client(c0, l2cap_mtu=a['l2cap_mtu'])
        st, t = sim.run(client.start(), 60.0)
        if st != 'done' or t.exception() is not None:
            sim.violation_once('mux', 'rfcomm:multiplexer-start-failed', str(st if st != 'done' else t.exception()))
            return result(sim, nontrivial=False)
        mux = t.result()
        sim.loop.settle()
        wire = [RfcommWire(sim, world[0], 'initiator'), RfcommWire(sim, world[1], 'acceptor')]
        ch0 = client.l2cap_channel
        wire[0].bind(ch0.source_cid, ch0.destination_cid)
        wire[1].bind(ch0.destination_cid, ch0.source_cid)
        # what each end announced at L2CAP level bounds every frame the other end may send, whatever RFCOMM negotiated
        wire[0].peer_l2cap_mtu, wire[1].peer_l2cap_mtu = b['l2cap_mtu'], a['l2cap_mtu']
        dl = {}  # index -> [dlc_initiator, dlc_acceptor]
        rx = {}
        want = {}

        def open_dlc(i):
            ch = i + 1
            accepted.pop(ch, None)
            st, t = sim.run(mux.open_dlc(ch, max_frame_size=a['mfs'], initial_credits=a['credits']), 60.0)
            if st != 'done':
                sim.violation_once('open', f'rfcomm:open-dlc-hangs:reopen={int(i in want)}', describe_task(t))
                t.cancel()
                return False
            if t.exception() is not None:
                sim.violation_once('open', f'rfcomm:open-dlc-failed:reopen={int(i in want)}:{type(t.exception()).__name__}', repr(t.exception()))
                return False
            sim.loop.settle()
            d0 = t.result()
            d1 = accepted.get(ch)
            if d1 is None:
                sim.violation_once('open', f'rfcomm:acceptor-never-saw-dlc:reopen={int(i in want)}', f'channel {ch}')
                return False
            dl[i] = [d0, d1]
            rx[i] = [bytearray(), bytearray()]
            want[i] = [bytearray(), bytearray()]
            d0.sink = lambda data, i=i: rx[i][0].extend(data)
            # what each sender may do: bounded by what the receiver announced
            wire[0].add(d0.dlci, b['mfs'], b['credits'])
            wire[1].add(d0.dlci, a['mfs'], a['credits'])
            if case.get('late_sink'):
                # the initiator talks as soon as the DLC is open; the acceptor's application attaches its sink a little later and
                # must then be handed what arrived meanwhile, in the order it was written
                greet = bytes((i * 31 + k) & 0xFF for k in range(int(2.5 * min(b['mfs'], 300))))
                want[i][1] += greet
                sim.call(d0.write, greet)
                sim.loop.settle(vt_budget=2.0)
                sim.probe('data_arrived_before_the_sink_was_attached')
            if case.get('late_sink') and deferred is not None:
                # (at the start several data links are opened and written to before any of the applications attaches its sink;
                # the sinks are then attached in the opposite order: each gets what arrived on its own link, nothing else)
                deferred.append((i, d1))
            else:
                d1.sink = lambda data, i=i: rx[i][1].extend(data)
            for side, d in enumerate((d0, d1)):
                if d.state != d.State.CONNECTED:
                    sim.violation_once('state', f'rfcomm:dlc-not-connected-after-open:{"initiator" if side == 0 else "acceptor"}', d.state.name)
            return True

        deferred = []
        for i in range(ndlc):
            if not open_dlc(i):
                return result(sim, nontrivial=False)
        for i, d1_ in reversed(deferred):
            d1_.sink = lambda data, i=i: rx[i][1].extend(data)
        if len(deferred) > 1:
            sim.probe('several_links_held_data_before_their_sinks_were_attached')
        deferred = None
        tag = 0
        reopened = 0

        def flush():
            def done():
                return all(bytes(rx[i][s]) == bytes(want[i][s]) for i in dl for s in (0, 1))
            st = 'timeout'
            for _ in range(2000):
                before = sim.trace.n
                st = sim.loop.drive(done, vt_budget=30.0, step_budget=3_000_000)
                if st != 'timeout' or sim.trace.n == before:
                    break
            sim.loop.settle(vt_budget=5.0)
            for i in dl:
                for s in (0, 1):
                    got, exp = bytes(rx[i][s]), bytes(want[i][s])
                    if got != exp:
                        who = 'to-initiator' if s == 0 else 'to-acceptor'
                        if exp.startswith(got):
                            sim.violation_once('stall', f'rfcomm:transfer-stalled:{who}', f'dlc {i}: {len(got)} of {len(exp)} bytes delivered, then silence')
                        else:
                            sim.violation_once('corrupt', f'rfcomm:stream-mismatch:{who}', f'dlc {i}: got {len(got)} bytes, want {len(exp)}')
            return not sim.violations

        for op in case['ops']:
            kind = op[0]
            if kind == 'write':
                _, i, side, size = op
                if i not in dl:
                    continue
                tag += 1
                data = bytes(((tag * 29 + k) & 0xFF) for k in range(size))
                want[i][1 - side] += data
                sim.call(dl[i][side].write, data)
            elif kind == 'settle':
                if not flush():
                    break
            elif kind == 'close':
                _, i, side = op
                if i not in dl:
                    continue
                if not flush():
                    break
                d = dl.pop(i)
                who = 'initiator' if side == 0 else ('acceptor' if side == 1 else 'both')
                if side == 2:
                    sim.probe('both_ends_disconnect_a_dlc_at_once')
                    ts = [sim.loop.create_task(d[0].disconnect()), sim.loop.create_task(d[1].disconnect())]
                    st = sim.loop.drive(lambda: all(t.done() for t in ts), 60.0)
                    if st != 'done':
                        sim.violation_once('close', f'rfcomm:dlc-disconnect-hangs:by={who}', describe_task(next(t for t in ts if not t.done())))
                        for t in ts:
                            t.cancel()
                        break
                    for t in ts:
                        if not t.cancelled():
                            t.exception()  # losing the race (the peer's DISC came first) may be reported as an error: not judged
                else:
                    st, t = sim.run(d[side].disconnect(), 60.0)
                    if st != 'done':
                        sim.violation_once('close', f'rfcomm:dlc-disconnect-hangs:by={who}', describe_task(t))
                        t.cancel()
                        break
                sim.loop.settle()
                for s2, dd in enumerate(d):
                    if dd.state == dd.State.CONNECTED:
                        end = 'closer' if s2 == side or side == 2 else 'other-end'
                        sim.violation_once('closestate', f'rfcomm:dlc-still-connected-after-disconnect:by={who}:{end}', f'{dd}')
                m0, m1 = mux, (muxes[0] if muxes else None)
                for mm, nm in ((m0, 'initiator'), (m1, 'acceptor')):
                    if mm is not None and d[0].dlci in mm.dlcs:
                        sim.violation_once('closetable', f'rfcomm:closed-dlc-still-in-table:by={who}:{nm}', f'dlci {d[0].dlci}')
                if sim.violations:
                    break
            elif kind == 'reopen':
                i = op[1]
                if i in dl:
                    continue
                closing = None
                if len(op) > 3 and op[2] is not None and op[2] in dl:
                    if not flush():
                        break
                    cd = dl.pop(op[2])
                    closing = (cd, sim.loop.create_task(cd[op[3]].disconnect()))
                    sim.probe('dlc_opened_while_another_is_being_closed')
                reopened += 1
                sim.probe('dlc_reopened')
                if not open_dlc(i):
                    break
                if closing is not None:
                    cd, tcl = closing
                    st = sim.loop.drive(tcl.done, 60.0)
                    if st != 'done':
                        sim.violation_once('close', 'rfcomm:dlc-disconnect-hangs:during-open-of-another', describe_task(tcl))
                        tcl.cancel()
                        break
                    sim.loop.settle()
                    for mm, nm in ((mux, 'initiator'), (muxes[0] if muxes else None, 'acceptor')):
                        if mm is not None and cd[0].dlci in mm.dlcs:
                            sim.violation_once('closetable', f'rfcomm:closed-dlc-still-in-table:during-open-of-another:{nm}', f'dlci {cd[0].dlci}')
        if not sim.violations:
            flush()
        for i in list(dl):
            for s in (0, 1):
                st, t = sim.run(dl[i][s].drain(), 30.0)
                if st != 'done':
                    sim.violation_once('drain', 'rfcomm:drain-hangs', describe_task(t))
                    t.cancel()
        if case['shutdown'] and not sim.violations:
            st, t = sim.run(client.shutdown(), 60.0)
            if st != 'done':
                sim.violation_once('shutdown', 'rfcomm:shutdown-hangs', describe_task(t))
                t.cancel()
            else:
                sim.loop.settle()
                if muxes and muxes[0].state not in (muxes[0].State.DISCONNECTED, muxes[0].State.RESET):
                    sim.violation_once('shutdown', f'rfcomm:acceptor-multiplexer-state-after-shutdown:{muxes[0].state.name}', '')
        if case.get('mux_close') and muxes and not sim.violations:
            who, stagger = case['mux_close']

            async def later(m, delay):
                if delay:
                    await asyncio.sleep(delay)
                await m.disconnect()
            ends = [mux, muxes[0]]
            ts = [sim.loop.create_task(later(ends[s], stagger if (who == 2 and s == 1) else 0)) for s in ((0, 1) if who == 2 else (who,))]
            st = sim.loop.drive(lambda: all(t.done() for t in ts), 60.0)
            sim.probe('both_ends_disconnect_the_multiplexer' if who == 2 else 'multiplexer_disconnected_by_one_end')
            if st != 'done':
                sim.violation_once('muxclose', f'rfcomm:multiplexer-disconnect-hangs:by={("initiator", "acceptor", "both")[who]}', describe_task(next(t for t in ts if not t.done())))
                for t in ts:
                    t.cancel()
            else:
                sim.loop.settle()
                for t in ts:
                    if not t.cancelled():
                        t.exception()  # being told that it is closed already is not judged
                if mux.state != mux.State.DISCONNECTED or muxes[0].state != muxes[0].State.DISCONNECTED:
                    sim.violation_once('muxclose', f'rfcomm:multiplexer-states-after-disconnect:by={("initiator", "acceptor", "both")[who]}:{mux.state.name}/{muxes[0].state.name}', '')
        sim.trace.shape(a['mfs'], b['mfs'], a['credits'], b['credits'], ndlc, tuple(o[0] for o in case['ops']))
        return result(sim, nontrivial=sim.probes['credits_hit_zero'] > 0 or reopened > 0)
    finally:
        sim.close()


# ====================================================================================== HFP SLC
HF_FEATURES = ['EC_NR', 'THREE_WAY_CALLING', 'CLI_PRESENTATION_CAPABILITY', 'VOICE_RECOGNITION_ACTIVATION', 'REMOTE_VOLUME_CONTROL',
               'ENHANCED_CALL_STATUS', 'ENHANCED_CALL_CONTROL', 'CODEC_NEGOTIATION', 'HF_INDICATORS', 'ESCO_S4_SETTINGS_SUPPORTED']
AG_FEATURES = ['THREE_WAY_CALLING', 'EC_NR', 'VOICE_RECOGNITION_FUNCTION', 'IN_BAND_RING_TONE_CAPABILITY', 'VOICE_TAG', 'REJECT_CALL',
               'ENHANCED_CALL_STATUS', 'ENHANCED_CALL_CONTROL', 'EXTENDED_ERROR_RESULT_CODES', 'CODEC_NEGOTIATION', 'HF_INDICATORS', 'ESCO_S4_SETTINGS_SUPPORTED']


def gen_hfp_slc(rng, tier, seed):
    def subset(names):
        r = rng.random()
        if r < 0.2:
            return [rng.choice(names)]
        if r < 0.3:
            return []
        if r < 0.4:
            return list(names)
        return [n for n in names if rng.random() < 0.5]
    return {'hf': subset(HF_FEATURES), 'ag': subset(AG_FEATURES), 'hf_ind': rng.sample([1, 2], rng.randint(0, 2)), 'ag_hf_ind': rng.sample([1, 2], rng.randint(0, 2)),
            'hf_codecs': rng.sample([1, 2, 3], rng.randint(1, 3)), 'ag_codecs': rng.sample([1, 2, 3], rng.randint(1, 3)),
            'chld': rng.sample(['0', '1', '1x', '2', '2x', '3', '4'], rng.randint(0, 7)), 'extra_ind': rng.random() < 0.5,
            'ind_values': ({str(rng.randrange(3, 7)): rng.choice([[0, 2, 5], [1, 3], [4], [0, 1, 2, 3, 7], [0, 5]])} if rng.random() < 0.3 else {}),
            'mfs': rng.choice([23, 127, 1000]), 'credits': rng.randint(1, 7), 'profile': rng.choice(PROFILE_NAMES),
            # after the SLC: indicator updates by the AG, some of them while a command of the HF is awaiting its OK
            'live': [[rng.randrange(7), rng.randrange(2), rng.choice(['none', 'cmd-then-update', 'update-then-cmd']), rng.choice(['AT+VGS=7', 'AT+VGM=3', 'AT+NREC=0'])]
                     for _ in range(rng.randint(0, 5))]}


def _hfp_link(sim, case):
    from bumble import rfcomm

    world, c0, c1 = _classic(sim)
    acc = []

    async def mk():
        srv = rfcomm.Server(world[1].device)
        srv.listen(acc.append, channel=1, max_frame_size=case.get('mfs', 1000), initial_credits=case.get('credits', 7))
        return srv

    sim.must(mk(), 'server')
    client = rfcomm.Client(c0)
    mux = sim.must(client.start(), 'mux')
    d0 = sim.must(mux.open_dlc(1, max_frame_size=case.get('mfs', 1000), initial_credits=case.get('credits', 7)), 'dlc')
    sim.loop.settle()
    if not acc:
        raise HarnessError('no acceptor DLC')
    return world, d0, acc[0]


def _ag_config(hfp, case):
    inds = [hfp.AgIndicatorState.call(), hfp.AgIndicatorState.callsetup(), hfp.AgIndicatorState.callheld(), hfp.AgIndicatorState.service(),
            hfp.AgIndicatorState.signal(), hfp.AgIndicatorState.roam(), hfp.AgIndicatorState.battchg()]
    if not case.get('extra_ind', True):
        inds = inds[:3]
    # a gateway whose indicators take other value sets than the defaults: a single value, a pair, a set with gaps
    for k, vals in (case.get('ind_values') or {}).items():
        k = int(k)
        if k < len(inds):
            inds[k].supported_values = set(vals)
            inds[k].current_status = min(vals)
    return hfp.AgConfiguration(
        supported_ag_features=[hfp.AgFeature[n] for n in case['ag']], supported_ag_indicators=inds,
        supported_hf_indicators=[hfp.HfIndicator(i) for i in case['ag_hf_ind']],
        supported_ag_call_hold_operations=[hfp.CallHoldOperation(o) for o in case['chld']],
        supported_audio_codecs=[hfp.AudioCodec(c) for c in case['ag_codecs']])


def run_hfp_slc(case):
    from bumble import hfp

    sim = Sim(case['seed'], case.get('profile', 'zero'), slow_node='N1')
    try:
        world, d0, d1 = _hfp_link(sim, case)
        hf_cfg = hfp.HfConfiguration(supported_hf_features=[hfp.HfFeature[n] for n in case['hf']],
                                     supported_hf_indicators=[hfp.HfIndicator(i) for i in case['hf_ind']],
                                     supported_audio_codecs=[hfp.AudioCodec(c) for c in case['hf_codecs']])
        ag_cfg = _ag_config(hfp, case)

        async def mk():
            return hfp.HfProtocol(d0, hf_cfg), hfp.AgProtocol(d1, ag_cfg)

        hf, ag = sim.must(mk(), 'protocols')
        slc = []
        ag.on('slc_complete', lambda: slc.append(1))
        st, t = sim.run(hf.initiate_slc(), 120.0)
        both3 = 'THREE_WAY_CALLING' in case['hf'] and 'THREE_WAY_CALLING' in case['ag']
        bothc = 'CODEC_NEGOTIATION' in case['hf'] and 'CODEC_NEGOTIATION' in case['ag']
        bothi = 'HF_INDICATORS' in case['hf'] and 'HF_INDICATORS' in case['ag']
        facts = f'3way={int(both3)}:codec={int(bothc)}:hfind={int(bothi)}'
        if st != 'done':
            sim.violation_once('slc', f'hfp:slc-never-completes:{facts}', describe_task(t))
            t.cancel()
            return result(sim, nontrivial=True)
        if t.exception() is not None:
            sim.violation_once('slc', f'hfp:slc-failed:{facts}:{type(t.exception()).__name__}', repr(t.exception()))
            return result(sim, nontrivial=True)
        sim.loop.settle()
        if len(slc) != 1:
            sim.violation_once('slcevent', f'hfp:ag-slc-complete-events={len(slc)}:{facts}', 'the AG must report the completed service level connection exactly once')
        hf_mask = sum(int(hfp.HfFeature[n]) for n in case['hf'])
        ag_mask = sum(int(hfp.AgFeature[n]) for n in case['ag'])
        if hf.supported_ag_features != ag_mask or ag.supported_hf_features != hf_mask:
            sim.violation_once('features', 'hfp:feature-masks-differ', f'HF holds AG features {hf.supported_ag_features:#x} (AG has {ag_mask:#x}); AG holds HF features {ag.supported_hf_features:#x} (HF has {hf_mask:#x})')
        a_ind = [(i.indicator, i.current_status) for i in ag.ag_indicators]
        h_ind = [(i.indicator, i.current_status) for i in hf.ag_indicators]
        if a_ind != h_ind:
            sim.violation_once('indicators', 'hfp:indicator-lists-differ', f'HF {h_ind} / AG {a_ind}')
        # ... including what the AG announced about each indicator in its answer to AT+CIND=? (value range, position)
        a_sup = [(i.indicator, sorted(i.supported_values)) for i in ag.ag_indicators]
        h_sup = [(i.indicator, sorted(i.supported_values) if isinstance(i.supported_values, (set, list, tuple, frozenset)) else i.supported_values) for i in hf.ag_indicators]
        if a_sup != h_sup:
            sim.violation_once('indicator-ranges', 'hfp:indicator-value-ranges-differ', f'HF {h_sup[:3]} / AG {a_sup[:3]}')
        elif [i.index for i in hf.ag_indicators] != list(range(len(hf.ag_indicators))):
            sim.violation_once('indicator-index', 'hfp:hf-indicator-positions-wrong', f'HF holds positions {[i.index for i in hf.ag_indicators]}')
        if bothc and [int(c) for c in ag.supported_audio_codecs] != [int(c) for c in case['hf_codecs']]:
            sim.violation_once('codecs', 'hfp:codec-lists-differ', f'AG holds {ag.supported_audio_codecs}, HF announced {case["hf_codecs"]}')
        if both3 and sorted(o.value for o in hf.supported_ag_call_hold_operations) != sorted(case['chld']):
            sim.violation_once('chld', 'hfp:call-hold-sets-differ', f'HF holds {[o.value for o in hf.supported_ag_call_hold_operations]}, AG supports {case["chld"]}')
        if bothi:
            common = sorted(set(case['hf_ind']) & set(case['ag_hf_ind']))
            ag_side = sorted(int(i) for i in ag.hf_indicators)
            hf_side = sorted(int(i) for i, s in hf.hf_indicators.items() if s.supported)
            if ag_side != common or hf_side != common:
                sim.violation_once('hfind', 'hfp:hf-indicator-sets-differ', f'common {common}; AG holds {ag_side}, HF marks {hf_side}')
        if both3 or bothc or bothi:
            sim.probe('optional_feature_shared')
        # ---- indicators stay the same on both sides while the AG reports changes, also when a report crosses a command of the HF
        if case.get('live') and a_ind == h_ind:
            runner_task = sim.loop.create_task(hf.run())
            sim.loop.settle(vt_budget=1.0)
            for idx, val, mode, cmd in case['live']:
                st_ = ag.ag_indicators[idx % len(ag.ag_indicators)]
                tcmd = None
                if mode == 'cmd-then-update':
                    tcmd = sim.loop.create_task(hf.execute_command(cmd, timeout=10.0))
                    sim.call(ag.update_ag_indicator, st_.indicator, val)
                elif mode == 'update-then-cmd':
                    sim.call(ag.update_ag_indicator, st_.indicator, val)
                    tcmd = sim.loop.create_task(hf.execute_command(cmd, timeout=10.0))
                else:
                    sim.call(ag.update_ag_indicator, st_.indicator, val)
                if tcmd is not None:
                    sim.probe('indicator_report_crossing_a_command')
                    sim.loop.drive(tcmd.done, vt_budget=15.0, step_budget=300_000)
                    if not tcmd.done():
                        sim.violation_once('livecmd', f'hfp:command-never-concluded:{mode}', f'{cmd} while the AG reported an indicator')
                        tcmd.cancel()
                    elif not tcmd.cancelled() and tcmd.exception() is not None and cmd != 'AT+NREC=0':
                        sim.violation_once('livecmd', f'hfp:command-failed:{mode}:{type(tcmd.exception()).__name__}', f'{cmd}: {tcmd.exception()!r}')
                    elif not tcmd.cancelled():
                        tcmd.exception()
                sim.loop.settle(vt_budget=2.0)
                sim.loop.advance(0.3)
            a_ind = [(i.indicator, i.current_status) for i in ag.ag_indicators]
            h_ind = [(i.indicator, i.current_status) for i in hf.ag_indicators]
            if a_ind != h_ind:
                sim.violation_once('indicators', 'hfp:indicators-diverge-after-reports', f'HF {h_ind} / AG {a_ind}')
            runner_task.cancel()
        sim.trace.shape(tuple(sorted(case['hf'])), tuple(sorted(case['ag'])), tuple(case['chld']))
        return result(sim, nontrivial=both3 or bothc or bothi)
    finally:
        sim.close()


# ====================================================================================== HFP: one final result code per AT line
AT_LINES = ['AT+BRSF=1023', 'AT+BAC=1,2', 'AT+CIND=?', 'AT+CIND?', 'AT+CMER=3,,,1', 'AT+CMER=3,0,0,1', 'AT+CHLD=?', 'AT+CHLD=0', 'AT+CHLD=1', 'AT+CHLD=2', 'AT+CHLD=3',
            'AT+CHLD=4', 'AT+CHLD=11', 'AT+CHLD=21', 'AT+CHLD=9', 'AT+BIND=1,2', 'AT+BIND=?', 'AT+BIND?', 'AT+BCC', 'AT+BCS=1', 'AT+BCS=2', 'ATA', 'AT+CHUP',
            'AT+CLCC', 'AT+BIEV=1,1', 'AT+BIEV=2,50', 'AT+CMEE=1', 'AT+CMEE=0', 'AT+CCWA=1', 'AT+CLIP=1', 'AT+VGS=7', 'AT+VGM=15', 'AT+BVRA=1', 'AT+BVRA=0',
            'ATD5551234;', 'AT+BIA=1,0,1,1,1,1,1', 'AT+NREC=0', 'AT+CMER=2,0,0,1', 'AT+CMER=3,0,0,7', 'AT+XAPL=1', 'AT+BTRH?', 'AT+CNUM', 'AT+COPS=3,0', 'AT+COPS?', 'AT+BLDN', 'AT+VTS=5']


def gen_hfp_at(rng, tier, seed):
    lines = []
    for _ in range(rng.randint(3, 25)):
        ln = rng.choice(AT_LINES)
        r = rng.random()
        if r < 0.25 and '=' in ln and not ln.endswith('?'):
            head, params = ln.split('=', 1)
            ps = params.split(',') if params else []
            k = rng.choice([-2, -1, 1, 2, 4])
            if k < 0:
                ps = ps[:max(0, len(ps) + k)]
            else:
                ps = ps + [str(rng.randrange(10)) for _ in range(k)]
            ln = head + '=' + ','.join(ps) if ps else head
        lines.append(ln)
    return {'lines': lines, 'ag': [n for n in AG_FEATURES if rng.random() < 0.6], 'ag_hf_ind': rng.sample([1, 2], rng.randint(0, 2)), 'ag_codecs': [1, 2],
            'chld': rng.sample(['0', '1', '1x', '2', '2x', '3', '4'], rng.randint(0, 7)), 'extra_ind': True, 'slc_first': rng.random() < 0.7,
            'profile': rng.choice(['zero', 'lan', 'radio', 'burst']), '_lists': ['lines']}


def run_hfp_at(case):
    from bumble import hfp

    sim = Sim(case['seed'], case.get('profile', 'zero'), slow_node='N1')
    try:
        world, d0, d1 = _hfp_link(sim, case)
        ag_cfg = _ag_config(hfp, case)
        ag = sim.must(_mk(hfp.AgProtocol, d1, ag_cfg), 'ag')
        out = bytearray()
        d0.sink = lambda data: out.extend(data)
        finals = []

        def scan():
            # responses are <cr><lf>text<cr><lf>
            while True:
                h = out.find(b'\r\n')
                if h < 0:
                    return
                t = out.find(b'\r\n', h + 2)
                if t < 0:
                    return
                text = bytes(out[h + 2:t]).decode('utf-8', 'replace')
                del out[:t + 2]
                if text == 'OK' or text == 'ERROR' or text.startswith('+CME ERROR'):
                    finals.append(text)

        lines = list(case['lines'])
        if case['slc_first']:
            lines = ['AT+BRSF=1023', 'AT+CIND=?', 'AT+CIND?', 'AT+CMER=3,0,0,1'] + lines
        count = 0
        for ln in lines:
            before = len(finals)
            sim.call(d0.write, (ln + '\r').encode())
            sim.loop.drive(lambda: (scan(), len(finals) > before)[1], vt_budget=5.0, step_budget=200_000)
            sim.loop.settle(vt_budget=2.0)
            sim.loop.advance(0.2)
            scan()
            n = len(finals) - before
            count += 1
            cmd = ln.split('=')[0].split('?')[0]
            form = 'test' if ln.endswith('=?') else ('read' if ln.endswith('?') else ('set' if '=' in ln else 'exec'))
            nparams = len(ln.split('=', 1)[1].split(',')) if '=' in ln and not ln.endswith('=?') else 0
            if n == 0:
                exc = next((e[1] for e in reversed(sim.delivery_exceptions)), 'none')
                sim.violation_once(f'at-none:{cmd}:{form}', f'hfp:at-no-final-result:{cmd}:{form}:raised={exc}', f'"{ln}" got no OK / ERROR / +CME ERROR')
                break
            if n > 1:
                sim.violation_once(f'at-many:{cmd}:{form}', f'hfp:at-{n}-final-results:{cmd}:{form}', f'"{ln}" was concluded by {finals[before:]}')
        sim.trace.shape(tuple(l.split('=')[0] for l in lines))
        return result(sim, nontrivial=count >= 5)
    finally:
        sim.close()


async def _mk(cls, *args):
    return cls(*args)


SCENARIOS = {'rfcomm': (gen_rfcomm, run_rfcomm), 'hfp_slc': (gen_hfp_slc, run_hfp_slc), 'hfp_at': (gen_hfp_at, run_hfp_at)}
