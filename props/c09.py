"""C09 — L2CAP channel tables stay exact; closed identifiers are reusable; waiters are released.

Real: ChannelManager (tables, CID allocation, signalling), LeCreditBasedChannel, ClassicChannel,
Device/Host/Controller/LocalLink underneath. Stub: nothing besides latency channels and fault triggers.
"""
from __future__ import annotations

import asyncio

from bsim.sim import PROFILE_NAMES, HarnessError, Sim, World, describe_task, innermost_bumble_frame, result

PROPERTY = 'C09'
PLAN = {
    'quick': [('tables', 2200)],
    'thorough': [('tables', 80000)],
}
WALL_CAP = {'quick': 150, 'thorough': 1500}
EVIDENCE = {
    'level': 'exploration',
    'rule': ('three full stacks, node 0 linked to node 1 (LE) and to node 2 (LE or BR/EDR) so that two links share one '
             'ChannelManager; seeded histories of open (LE CoC, enhanced CoC batches, classic basic-mode) from either side, '
             'close from either side, refused opens (no server), data+drain, concurrent opens on both links, and a link '
             'disconnection fired at a seeded air-message boundary of an open / close / drain, followed by reconnection and '
             'further opens. Non-trivial: a CID was reused after a close, or a link cut hit an operation in flight; '
             'distinct = distinct sequence of (op kind, channel kind, who, outcome).'),
    'real': ['bumble.l2cap.ChannelManager', 'bumble.l2cap.LeCreditBasedChannel', 'bumble.l2cap.ClassicChannel',
             'bumble.device.Device', 'bumble.host.Host', 'bumble.controller.Controller', 'bumble.link.LocalLink'],
    'stub': ['latency channels', 'link-cut trigger at an air-message boundary'],
    'assumptions': ['both ends are Bumble (peer-chosen CIDs differing from Bumble allocation are covered by C07)',
                    'tables are read through the anchor names channels / le_coc_channels; a missing attribute downgrades to behavioural checks only'],
}

LE_PSMS = [0x80, 0x81]
LE_PSM_NOSERVER = 0x8F
CL_PSMS = [0x1001, 0x1003]
CL_PSM_ERTM = 0x1009
CL_PSM_NOSERVER = 0x1011


def gen_tables(rng, tier, seed):
    link2 = rng.choice(['le', 'le', 'classic'])
    ops = []
    nops = rng.randint(4, 22 if tier == 'quick' else 40)
    cuts = 0
    for _ in range(nops):
        r = rng.random()
        link = rng.randrange(2)
        classic = link == 1 and link2 == 'classic'
        if r < 0.36:
            kind = 'classic' if classic else rng.choice(['le_coc', 'le_coc', 'ecbfc'])
            ops.append(['open', link, rng.randrange(2), kind, rng.randrange(2), rng.choice([1, 1, 2, 3]) if kind == 'ecbfc' else 1])
        elif r < 0.54:
            ops.append(['close', rng.randrange(8), rng.randrange(2)])
        elif r < 0.58:
            # both ends close the same channel at (nearly) the same moment: the two Disconnection Requests cross
            ops.append(['close_both', rng.randrange(8), rng.randrange(2), rng.choice([0, 0, 0.0002, 0.001, 0.005])])
        elif r < 0.66:
            ops.append(['refused', link, rng.randrange(2), 'classic' if classic else rng.choice(['le_coc', 'ecbfc'])])
        elif r < 0.80:
            ops.append(['data', rng.randrange(8), rng.randrange(2), rng.choice([1, 10, 100, 700])])
        elif r < 0.83:
            ops.append(['open2', rng.randrange(2), rng.randrange(2)])
        elif r < 0.87:
            ops.append(['open_skew', link, rng.randrange(2), 'classic' if classic else 'le_coc'])
        elif r < 0.90 and classic:
            # (sometimes with a valid open issued right behind it, while the refused one is still being torn down)
            ops.append(['mismatch', link, rng.randrange(2), rng.random() < 0.5])
        elif r < 0.905 and not classic and cuts == 0:
            # a long life on one LE link: the next channel is always opened before the previous one is closed
            ops.append(['churn', link, rng.randrange(2), rng.choice([66, 70, 130])])
        elif r < 0.96 and cuts < 2:
            cuts += 1
            # ('open_other': the link goes away while an open is in flight on the device's OTHER link, which must not notice)
            what = rng.choice(['open', 'close', 'data', 'idle', 'open_other'])
            ops.append(['cut', link, rng.randrange(2), what, rng.randrange(0, 8), rng.randrange(8), rng.randrange(2)])
        else:
            ops.append(['close_server_then_open', link, rng.randrange(2)])
    # the last thing in some histories: an open that the caller gives up (cancels, as a timeout would) while the answer is on its way
    # (the peer may accept the abandoned request, or refuse it: no server on that PSM)
    abandon = [rng.randrange(2), rng.randrange(2), rng.choice([0.0, 0.0, 0.001, 0.01]), rng.random() < 0.4] if rng.random() < 0.3 else None
    return {'link2': link2, 'profile': rng.choice(PROFILE_NAMES), 'ops': ops, 'abandon': abandon}


class Chan:
    def __init__(self, kind, link, initiator, ends):
        self.kind = kind
        self.link = link
        self.initiator = initiator  # side index (0 = node 0 side, 1 = peer side)
        self.ends = ends  # channel objects indexed by side
        self.rx = [bytearray(), bytearray()]
        self.sdus = [[], []]


class Ctx:
    def __init__(self, sim, world, case):
        from bumble import l2cap

        self.l2cap = l2cap
        self.sim = sim
        self.world = world
        self.case = case
        self.links = [None, None]  # [conn on node0, conn on peer]
        self.peers = [1, 2]
        self.chans: list[Chan] = []
        self.accepted = {i: [] for i in range(3)}
        self.ertm_accepted = {i: [] for i in range(3)}
        self.servers = {i: {} for i in range(3)}
        self.reused = 0
        self.used_cids = {}  # (node, handle epoch) -> set of cids ever used
        self.shape = []
        for i in range(3):
            dev = world[i].device
            for psm in LE_PSMS:
                self.servers[i][psm] = dev.create_l2cap_server(
                    l2cap.LeCreditBasedChannelSpec(psm=psm, mtu=256, mps=64, max_credits=4),
                    handler=lambda ch, i=i: self.accepted[i].append(ch))
            if case['link2'] == 'classic':
                for psm in CL_PSMS:
                    self.servers[i][psm] = dev.create_l2cap_server(
                        l2cap.ClassicChannelSpec(psm=psm, mtu=512), handler=lambda ch, i=i: self.accepted[i].append(ch))
                # a server that insists on Enhanced Retransmission Mode: a Basic-mode client is turned away during configuration
                self.servers[i][CL_PSM_ERTM] = dev.create_l2cap_server(
                    l2cap.ClassicChannelSpec(psm=CL_PSM_ERTM, mtu=512, mode=l2cap.TransmissionMode.ENHANCED_RETRANSMISSION), handler=lambda ch, i=i: self.ertm_accepted[i].append(ch))

    def node(self, link, side):
        return 0 if side == 0 else self.peers[link]

    def classic(self, link):
        return link == 1 and self.case['link2'] == 'classic'

    def connect_link(self, link):
        sim, world = self.sim, self.world
        p = self.peers[link]
        if self.classic(link):
            got = []
            world[p].device.once('connection', got.append)
            c0 = sim.must(world[0].device.connect(world[p].controller.public_address, transport=0), 'classic connect')
            sim.loop.drive(lambda: bool(got), 10.0)
            sim.loop.settle()
            if not got:
                raise HarnessError('classic peer never saw the connection')
            self.links[link] = [c0, got[0]]
        else:
            self.links[link] = list(world.connect_le(0, p))

    def live(self, link):
        return [c for c in self.chans if c.link == link]


def _tables(cx, after):
    """Table contents versus the model, for every device and link (at quiescence)."""
    sim = cx.sim
    for link in (0, 1):
        conns = cx.links[link]
        if conns is None:
            continue
        for side in (0, 1):
            node = cx.node(link, side)
            mgr = cx.world[node].device.l2cap_channel_manager
            handle = conns[side].handle
            want_src = sorted(c.ends[side].source_cid for c in cx.live(link))
            chans = getattr(mgr, 'channels', None)
            if chans is not None:
                have = sorted(chans.get(handle, {}).keys())
                if have != want_src:
                    extra = sorted(set(have) - set(want_src))
                    missing = sorted(set(want_src) - set(have))
                    what = 'stale' if extra and not missing else ('missing' if missing and not extra else 'different')
                    sim.violation_once('tbl-channels', f'table:channels:{what}:after={after}',
                                       f'N{node} link {link}: channels table has CIDs {have}, open channels have {want_src}')
            coc = getattr(mgr, 'le_coc_channels', None)
            if coc is not None and not cx.classic(link):
                want_dst = sorted(c.ends[side].destination_cid for c in cx.live(link) if c.kind != 'classic')
                have = sorted(coc.get(handle, {}).keys())
                if have != want_dst:
                    extra = sorted(set(have) - set(want_dst))
                    missing = sorted(set(want_dst) - set(have))
                    what = 'stale' if extra and not missing else ('missing' if missing and not extra else 'different')
                    sim.violation_once('tbl-coc', f'table:le_coc_channels:{what}:after={after}',
                                       f'N{node} link {link}: le_coc_channels has peer CIDs {have}, open channels have {want_dst}')
            # nothing is being opened at quiescence: the tables of requests in flight are empty
            for name in ('le_coc_requests', 'pending_credit_based_connections'):
                tbl = getattr(mgr, name, None)
                pend = [k for k, v in (tbl or {}).items() if v] if name != 'le_coc_requests' else list((tbl or {}).keys())
                if pend:
                    sim.violation_once('tbl-pending', f'table:{name}:stale-request:after={after}', f'N{node}: {name} still holds {pend[:4]} although no open is in flight')
            # CIDs unique per connection
            if len(set(want_src)) != len(want_src):
                sim.violation_once('cid-dup', f'cid-not-unique:after={after}', f'N{node} link {link}: local CIDs {want_src}')


def _spec(cx, kind, psm):
    if kind == 'classic':
        return cx.l2cap.ClassicChannelSpec(psm=psm, mtu=512)
    return cx.l2cap.LeCreditBasedChannelSpec(psm=psm, mtu=256, mps=64, max_credits=4)


def _open_coro(cx, link, side, kind, psm, count):
    conn = cx.links[link][side]
    node = cx.node(link, side)
    mgr = cx.world[node].device.l2cap_channel_manager
    if kind == 'ecbfc':
        return mgr.create_enhanced_credit_based_channels(conn, _spec(cx, kind, psm), count)
    return conn.create_l2cap_channel(spec=_spec(cx, kind, psm))


def _register(cx, link, side, kind, result_obj, accepted_before):
    """Pair the initiator's channel(s) with the acceptor's and install sinks."""
    peer_node = cx.node(link, 1 - side)
    mine = result_obj if isinstance(result_obj, list) else [result_obj]
    theirs = [ch for ch in cx.accepted[peer_node][accepted_before:]]
    if len(theirs) != len(mine):
        cx.sim.violation_once('accept-count', f'open:acceptor-count:{kind}', f'initiator got {len(mine)} channel(s), acceptor reported {len(theirs)}')
        return False
    for m, t in zip(mine, theirs):
        ends = [None, None]
        ends[side] = m
        ends[1 - side] = t
        ch = Chan(kind, link, side, ends)
        for s in (0, 1):
            if kind == 'classic':
                ends[s].sink = lambda sdu, ch=ch, s=s: ch.sdus[s].append(bytes(sdu))
            else:
                ends[s].sink = lambda data, ch=ch, s=s: ch.rx[s].extend(data)
        cx.chans.append(ch)
        for s in (0, 1):
            key = (cx.node(link, s), id(cx.links[link][s]))
            seen = cx.used_cids.setdefault(key, set())
            if ends[s].source_cid in seen:
                cx.reused += 1
                cx.sim.probe('cid_reused_after_close')
            seen.add(ends[s].source_cid)
    return True


def _do_open(cx, link, side, kind, psm_i, count, tag='open'):
    sim = cx.sim
    if cx.links[link] is None:
        return True
    psm = (CL_PSMS if kind == 'classic' else LE_PSMS)[psm_i]
    peer_node = cx.node(link, 1 - side)
    if psm not in cx.servers[peer_node]:
        psm = (CL_PSMS if kind == 'classic' else LE_PSMS)[0]  # that server was closed earlier in this history
    before = len(cx.accepted[peer_node])
    who = 'node0' if side == 0 else 'peer'
    st, t = sim.run(_open_coro(cx, link, side, kind, psm, count), 60.0)
    if st != 'done':
        sim.violation_once('open-hang', f'{tag}-hang:{kind}:{st}', f'open {kind} on link {link} by {who}: {describe_task(t)}')
        t.cancel()
        return False
    if t.cancelled() or t.exception() is not None:
        closed_before = cx.reused_possible.get((link, kind), False)
        e = None if t.cancelled() else t.exception()
        sim.violation_once('open-refused', f'{tag}-refused:{kind}:after_close={int(closed_before)}:{type(e).__name__}',
                           f'open {kind} on link {link} by {who} failed although a server listens: {e!r}')
        return False
    sim.loop.settle()
    ok = _register(cx, link, side, kind, t.result(), before)
    cx.shape.append((tag, kind, who))
    return ok


def _do_close(cx, idx, side):
    sim = cx.sim
    if not cx.chans:
        return True
    ch = cx.chans[idx % len(cx.chans)]
    cx.chans.remove(ch)
    who = 'initiator' if side == ch.initiator else 'acceptor'
    st, t = sim.run(ch.ends[side].disconnect(), 60.0)
    if st != 'done':
        sim.violation_once('close-hang', f'close-hang:{ch.kind}:by={who}', describe_task(t))
        t.cancel()
        return False
    if t.exception() is not None:
        sim.violation_once('close-exc', f'close-raised:{ch.kind}:by={who}:{type(t.exception()).__name__}', repr(t.exception()))
        return False
    sim.loop.settle()
    cx.reused_possible[(ch.link, ch.kind)] = True
    for s in (0, 1):
        e = ch.ends[s]
        closed = (e.state == e.State.CLOSED) if ch.kind == 'classic' else (e.state == e.State.DISCONNECTED)
        if not closed:
            end = 'closer' if s == side else 'other'
            sim.violation_once('close-state', f'close:state-not-closed:{ch.kind}:by={who}:end={end}', f'state {e.state.name}')
    cx.shape.append(('close', ch.kind, who))
    return True


def _do_close_both(cx, idx, first, stagger):
    """Both ends ask for the disconnection; the second `stagger` virtual seconds after the first. Either caller may be told
    that the channel is closed already (an exception) - neither may wait forever, and both ends must end up closed."""
    sim = cx.sim
    if not cx.chans:
        return True
    ch = cx.chans[idx % len(cx.chans)]
    cx.chans.remove(ch)

    async def later(end, delay):
        if delay:
            await asyncio.sleep(delay)
        await end.disconnect()
    ts = [sim.loop.create_task(later(ch.ends[first], 0)), sim.loop.create_task(later(ch.ends[1 - first], stagger))]
    st = sim.loop.drive(lambda: all(t.done() for t in ts), 60.0)
    sim.probe('both_ends_close_the_same_channel')
    if st != 'done':
        t = next(t for t in ts if not t.done())
        sim.violation_once('close-hang', f'close-hang:{ch.kind}:by=both', describe_task(t))
        for t in ts:
            t.cancel()
        return False
    sim.loop.settle()
    if all(not t.cancelled() and t.exception() is None for t in ts):
        sim.probe('crossing_closes_both_returned')
    cx.reused_possible[(ch.link, ch.kind)] = True
    for s in (0, 1):
        e = ch.ends[s]
        closed = (e.state == e.State.CLOSED) if ch.kind == 'classic' else (e.state == e.State.DISCONNECTED)
        if not closed:
            sim.violation_once('close-state', f'close:state-not-closed:{ch.kind}:by=both', f'state {e.state.name}')
            return False
    cx.shape.append(('close_both', ch.kind))
    return True


def _do_data(cx, idx, side, size):
    sim = cx.sim
    if not cx.chans:
        return True
    ch = cx.chans[idx % len(cx.chans)]
    data = bytes((i * 13 + size) & 0xFF for i in range(size))
    e = ch.ends[side]
    if ch.kind == 'classic':
        before = len(ch.sdus[1 - side])
        e.write(data)
        sim.loop.settle()
        if ch.sdus[1 - side][before:] != [data]:
            sim.violation_once('data', f'data:classic-sdu-mismatch', f'got {len(ch.sdus[1 - side]) - before} SDU(s)')
            return False
    else:
        before = len(ch.rx[1 - side])
        e.write(data)
        st, t = sim.run(e.drain(), 60.0)
        if st != 'done':
            sim.violation_once('drain-hang', f'drain-hang:{ch.kind}', describe_task(t))
            t.cancel()
            return False
        sim.loop.settle()
        if bytes(ch.rx[1 - side][before:]) != data:
            sim.violation_once('data', f'data:coc-stream-mismatch:{ch.kind}', f'{len(ch.rx[1 - side]) - before} of {size} bytes arrived')
            return False
    cx.shape.append(('data', ch.kind))
    return True


def _do_cut(cx, op):
    """Fire a link disconnection at air-message k of an operation in flight; then reconnect."""
    sim, world = cx.sim, cx.world
    _, link, cut_side, what, k, idx, opside = op
    if cx.links[link] is None:
        return True
    conns = cx.links[link]
    classic = cx.classic(link)
    kind = 'classic' if classic else 'le_coc'
    mine = [c for c in cx.live(link)]
    tasks = []
    label = what
    if what == 'open':
        psm = (CL_PSMS if classic else LE_PSMS)[0]
        if not classic and idx % 3 == 0:
            kind = 'ecbfc'  # an enhanced credit-based request (1-3 channels) is the open that the link loss interrupts
        tasks.append(sim.loop.create_task(_open_coro(cx, link, opside, kind, psm, 1 + idx % 3 if kind == 'ecbfc' else 1)))
    elif what == 'close' and mine:
        ch = mine[idx % len(mine)]
        kind = ch.kind
        tasks.append(sim.loop.create_task(ch.ends[opside].disconnect()))
    elif what == 'data' and mine:
        ch = mine[idx % len(mine)]
        kind = ch.kind
        if ch.kind != 'classic':
            ch.ends[opside].write(bytes(900))
            tasks.append(sim.loop.create_task(ch.ends[opside].drain()))
            label = 'drain'
        else:
            ch.ends[opside].write(bytes(100))
    else:
        label = 'idle'
    bystander = None
    other = 1 - link
    if what == 'open_other' and cx.links[other] is not None:
        okind = 'classic' if cx.classic(other) else 'le_coc'
        opsm = (CL_PSMS if okind == 'classic' else LE_PSMS)[0]
        if opsm in cx.servers[cx.node(other, 1)]:
            before = len(cx.accepted[cx.node(other, 1)])
            bystander = (sim.loop.create_task(_open_coro(cx, other, 0, okind, opsm, 1)), okind, before)
            sim.probe('link_cut_while_an_open_is_in_flight_on_the_other_link')
    # count air messages from now; cut after k of them (or when the op finished earlier)
    peer_node = cx.peers[link]
    start = world[0].link_in.delivered + world[peer_node].link_in.delivered
    sim.loop.drive(lambda: (world[0].link_in.delivered + world[peer_node].link_in.delivered - start) >= k or (tasks and all(t.done() for t in tasks)), 5.0)
    in_flight = bool(tasks) and not all(t.done() for t in tasks)
    if in_flight:
        sim.probe('link_cut_hit_operation_in_flight')
    sim.fault(f'link_cut:{label}')
    dt = sim.loop.create_task(conns[cut_side].disconnect())
    cutter = 'same-side' if cut_side == opside else 'other-side'
    st = sim.loop.drive(lambda: dt.done() and all(t.done() for t in tasks), 90.0)
    if st != 'done':
        for t in tasks:
            if not t.done():
                sim.violation_once('cut-hang', f'waiter-hangs-after-link-loss:{label}:{kind}:cut-by={cutter}:at={innermost_bumble_frame(t)}',
                                   f'{label} still pending after the link went away: {describe_task(t)}')
                t.cancel()
        if not dt.done():
            sim.violation_once('cut-disc-hang', f'link-disconnect-hang:during={label}', describe_task(dt))
            dt.cancel()
        sim.loop.settle()
    sim.loop.settle()
    sim.loop.advance(0.05)
    # everything on that link is gone
    for c in list(cx.chans):
        if c.link == link:
            cx.chans.remove(c)
    cx.links[link] = None
    for node in (0, cx.peers[link]):
        cx.accepted[node].clear()
    _tables_after_cut(cx, link, conns, label)
    cx.shape.append(('cut', label, cutter, in_flight))
    if bystander is not None:
        bt, okind, before = bystander
        st = sim.loop.drive(bt.done, 60.0)
        if st != 'done' or bt.cancelled() or bt.exception() is not None:
            why = 'hang' if not bt.done() else ('cancelled' if bt.cancelled() else type(bt.exception()).__name__)
            sim.violation_once('bystander', f'open-on-another-link-failed-when-a-link-was-lost:{okind}:{why}', describe_task(bt) if not bt.done() else repr(bt.exception() if not bt.cancelled() else 'cancelled'))
            if not bt.done():
                bt.cancel()
            return False
        sim.loop.settle()
        if not _register(cx, other, 0, okind, bt.result(), before):
            return False
    # reconnect
    cx.connect_link(link)
    return True


def _tables_after_cut(cx, link, conns, label):
    for side in (0, 1):
        node = cx.node(link, side)
        mgr = cx.world[node].device.l2cap_channel_manager
        handle = conns[side].handle
        for name in ('channels', 'le_coc_channels', 'pending_credit_based_connections'):
            tbl = getattr(mgr, name, None)
            if tbl is not None and tbl.get(handle):
                cx.sim.violation_once('tbl-cut', f'table:{name}:stale-after-link-loss:{label}', f'N{node}: {name}[{handle:#x}] = {list(tbl.get(handle).keys())}')
        req = getattr(mgr, 'le_coc_requests', None)
        if req:
            cx.sim.violation_once('tbl-req', f'table:le_coc_requests:stale-after-link-loss:{label}', f'N{node}: pending request ids {sorted(req.keys())}')


def run_tables(case):
    sim = Sim(case['seed'], case.get('profile', 'zero'), slow_node='N1')
    try:
        world = World(sim, 3, classic=case['link2'] == 'classic')
        world.power_on()
        cx = Ctx(sim, world, case)
        cx.reused_possible = {}
        cx.connect_link(0)
        cx.connect_link(1)
        for op in case['ops']:
            kind = op[0]
            ok = True
            if kind == 'open':
                _, link, side, ck, psm_i, count = op
                if ck == 'classic' and not cx.classic(link):
                    ck = 'le_coc'
                ok = _do_open(cx, link, side, ck, psm_i, count)
            elif kind == 'close':
                ok = _do_close(cx, op[1], op[2])
            elif kind == 'close_both':
                ok = _do_close_both(cx, op[1], op[2], op[3])
            elif kind == 'data':
                ok = _do_data(cx, op[1], op[2], op[3])
            elif kind == 'refused':
                _, link, side, ck = op
                if ck == 'classic' and not cx.classic(link):
                    ck = 'le_coc'
                psm = CL_PSM_NOSERVER if ck == 'classic' else LE_PSM_NOSERVER
                st, t = sim.run(_open_coro(cx, link, side, ck, psm, 1), 60.0)
                if st != 'done':
                    sim.violation_once('refused-hang', f'refused-open-hang:{ck}', describe_task(t))
                    t.cancel()
                    ok = False
                elif not t.cancelled() and t.exception() is None:
                    sim.violation_once('refused-ok', f'open-without-server-succeeded:{ck}', 'no server on that PSM')
                    ok = False
                sim.loop.settle()
                cx.shape.append(('refused', ck))
            elif kind == 'open2':
                # concurrent opens on both links
                _, s0, s1 = op
                k0 = 'le_coc'
                k1 = 'classic' if cx.classic(1) else 'le_coc'
                b0 = len(cx.accepted[cx.node(0, 1 - s0)])
                b1 = len(cx.accepted[cx.node(1, 1 - s1)])
                if cx.node(0, 1 - s0) == cx.node(1, 1 - s1):
                    # both acceptors are node 0: cannot attribute by count alone, run them one after the other instead
                    ok = _do_open(cx, 0, s0, k0, 0, 1) and _do_open(cx, 1, s1, k1, 0, 1)
                else:
                    t0 = sim.loop.create_task(_open_coro(cx, 0, s0, k0, LE_PSMS[0], 1))
                    t1 = sim.loop.create_task(_open_coro(cx, 1, s1, k1, (CL_PSMS if k1 == 'classic' else LE_PSMS)[0], 1))
                    st = sim.loop.drive(lambda: t0.done() and t1.done(), 60.0)
                    sim.probe('concurrent_opens_on_two_links')
                    if st != 'done':
                        sim.violation_once('open2-hang', f'concurrent-open-hang:{k0}+{k1}', describe_task(t0 if not t0.done() else t1))
                        t0.cancel(); t1.cancel()
                        ok = False
                    else:
                        for t, lk in ((t0, 0), (t1, 1)):
                            if t.exception() is not None:
                                sim.violation_once('open2-refused', f'concurrent-open-refused:link={lk}:{type(t.exception()).__name__}', repr(t.exception()))
                                ok = False
                        if ok:
                            sim.loop.settle()
                            ok = _register(cx, 0, s0, k0, t0.result(), b0) and _register(cx, 1, s1, k1, t1.result(), b1)
                    cx.shape.append(('open2', k1))
            elif kind == 'mismatch':
                # Basic-mode open towards the ERTM-only server: it fails during configuration, and leaves nothing behind on either side
                _, link, side = op[:3]
                retry = len(op) > 3 and op[3]
                if cx.links[link] is not None and cx.classic(link):
                    conn = cx.links[link][side]
                    peer_node = cx.node(link, 1 - side)
                    before_acc = len(cx.accepted[peer_node])
                    tm = sim.loop.create_task(conn.create_l2cap_channel(spec=cx.l2cap.ClassicChannelSpec(psm=CL_PSM_ERTM, mtu=512)))
                    tr = None
                    if retry and CL_PSMS[0] in cx.servers[peer_node]:
                        # as soon as the refused attempt has given its CID back, a valid open takes it - while the peer's answer to
                        # the first one may still be on its way
                        sim.loop.drive(tm.done, 60.0)
                        tr = sim.loop.create_task(_open_coro(cx, link, side, 'classic', CL_PSMS[0], 1))
                        sim.probe('open_right_behind_a_refused_one')
                    st = sim.loop.drive(lambda: tm.done() and (tr is None or tr.done()), 60.0)
                    t = tm
                    if tr is not None:
                        if not tr.done():
                            sim.violation_once('open-hang', 'open-hang:classic:right-behind-a-mode-mismatch', describe_task(tr))
                            tr.cancel()
                            ok = False
                        elif tr.cancelled() or tr.exception() is not None:
                            sim.violation_once('open-refused', f'open-refused:classic:right-behind-a-mode-mismatch:{"cancelled" if tr.cancelled() else type(tr.exception()).__name__}', 'open with a listening server failed')
                            ok = False
                        else:
                            sim.loop.settle()
                            ok = _register(cx, link, side, 'classic', tr.result(), before_acc)
                    sim.probe('mode_mismatch_during_configuration')
                    if st != 'done':
                        sim.violation_once('open-hang', f'mismatch-open-hang:{st}', describe_task(t))
                        t.cancel()
                        ok = False
                    elif not t.cancelled() and t.exception() is None:
                        sim.violation_once('mismatch-ok', 'open-with-mismatching-mode-succeeded', 'a Basic-mode channel was opened on an ERTM-only server')
                        ok = False
                    sim.loop.settle()
                    sim.loop.advance(0.5)
                    cx.shape.append(('mismatch',))
            elif kind == 'churn':
                _, link, side, count = op
                if cx.links[link] is not None and not cx.classic(link) and LE_PSMS[0] in cx.servers[cx.node(link, 1 - side)]:
                    sim.probe('long_overlapping_open_close_history')
                    ok = _do_open(cx, link, side, 'le_coc', 0, 1, tag='churn-open')
                    for _k in range(count):
                        if not ok:
                            break
                        prev = cx.chans[-1]
                        ok = _do_open(cx, link, side, 'le_coc', 0, 1, tag='churn-open')
                        if ok:
                            ok = _do_close(cx, cx.chans.index(prev), side)
            elif kind == 'open_skew':
                # a refused and a valid open issued at once by the same side: the refused attempt holds the first free CID for a
                # while, so the valid channel ends up with DIFFERENT CIDs on the two devices
                _, link, side, ck = op
                if cx.links[link] is not None:
                    if ck == 'classic' and not cx.classic(link):
                        ck = 'le_coc'
                    peer_node = cx.node(link, 1 - side)
                    good = (CL_PSMS if ck == 'classic' else LE_PSMS)[0]
                    bad = CL_PSM_NOSERVER if ck == 'classic' else LE_PSM_NOSERVER
                    if good in cx.servers[peer_node]:
                        before = len(cx.accepted[peer_node])
                        tb = sim.loop.create_task(_open_coro(cx, link, side, ck, bad, 1))
                        tg = sim.loop.create_task(_open_coro(cx, link, side, ck, good, 1))
                        st = sim.loop.drive(lambda: tb.done() and tg.done(), 60.0)
                        if st != 'done':
                            sim.violation_once('open-hang', f'open-hang:{ck}:{st}', describe_task(tg if not tg.done() else tb))
                            tb.cancel(); tg.cancel()
                            ok = False
                        else:
                            if not tb.cancelled() and tb.exception() is None:
                                sim.violation_once('refused-ok', f'open-without-server-succeeded:{ck}', 'no server on that PSM')
                            if tg.cancelled() or tg.exception() is not None:
                                sim.violation_once('open-refused', f'open-refused:{ck}:concurrent-with-refused-open:{type(tg.exception()).__name__ if not tg.cancelled() else "cancelled"}', 'open with a listening server failed')
                                ok = False
                            else:
                                sim.loop.settle()
                                ok = _register(cx, link, side, ck, tg.result(), before)
                                ch = cx.chans[-1] if ok else None
                                if ch is not None and ch.ends[0].source_cid != ch.ends[1].source_cid:
                                    sim.probe('channel_with_different_cids_on_both_sides')
                        cx.shape.append(('open_skew', ck))
            elif kind == 'cut':
                ok = _do_cut(cx, op)
            elif kind == 'close_server_then_open':
                _, link, side = op
                ck = 'classic' if cx.classic(link) else 'le_coc'
                psm = (CL_PSMS if ck == 'classic' else LE_PSMS)[1]
                peer_node = cx.node(link, 1 - side)
                srv = cx.servers[peer_node].pop(psm, None)
                if srv is not None:
                    srv.close()
                    st, t = sim.run(_open_coro(cx, link, side, ck, psm, 1), 60.0)
                    if st != 'done':
                        sim.violation_once('closedsrv-hang', f'open-to-closed-server-hang:{ck}', describe_task(t))
                        t.cancel()
                        ok = False
                    elif not t.cancelled() and t.exception() is None:
                        sim.violation_once('closedsrv-ok', f'open-to-closed-server-succeeded:{ck}', 'server was closed')
                        ok = False
                    sim.loop.settle()
                    cx.shape.append(('closed_server', ck))
            if not ok:
                break
            _tables(cx, kind)
            if sim.violations:
                break
        if case.get('abandon') and not sim.violations:
            link, side, wait = case['abandon'][:3]
            refused = len(case['abandon']) > 3 and case['abandon'][3]
            if cx.links[link] is not None:
                ck = 'classic' if cx.classic(link) else 'le_coc'
                peer_node = cx.node(link, 1 - side)
                psm = (CL_PSMS if ck == 'classic' else LE_PSMS)[0]
                if refused:
                    psm = CL_PSM_NOSERVER if ck == 'classic' else LE_PSM_NOSERVER
                    sim.probe('abandoned_open_that_the_peer_refuses')
                if refused or psm in cx.servers[peer_node]:
                    node = cx.node(link, side)
                    mgr = world[node].device.l2cap_channel_manager
                    handle = cx.links[link][side].handle
                    before_tbl = sorted(mgr.channels.get(handle, {}).keys())
                    ta = sim.loop.create_task(_open_coro(cx, link, side, ck, psm, 1))
                    sim.loop.drive(lambda: sorted(mgr.channels.get(handle, {}).keys()) != before_tbl or ta.done(), vt_budget=1.0, step_budget=50_000)
                    if wait:
                        sim.loop.advance(wait)
                    if not ta.done():
                        ta.cancel()
                        sim.fault('open_abandoned_in_flight')
                        sim.loop.settle(vt_budget=5.0)
                        sim.loop.advance(1.0)
                        after_tbl = sorted(mgr.channels.get(handle, {}).keys())
                        if after_tbl != before_tbl:
                            sim.violation_once('tbl-abandoned', f'table:channels:stale:after=abandoned-open:{ck}',
                                               f'N{node} link {link}: channels table has CIDs {after_tbl}, had {before_tbl} before the open that its caller cancelled')
                        # (the acceptor may legitimately still hold the channel it accepted: its tables are not compared here)
                        for nd in (node, peer_node):
                            m2 = world[nd].device.l2cap_channel_manager
                            for name in ('le_coc_requests', 'pending_credit_based_connections'):
                                tbl = getattr(m2, name, None)
                                pend = [k for k, v in (tbl or {}).items() if v] if name != 'le_coc_requests' else list((tbl or {}).keys())
                                if pend:
                                    sim.violation_once('tbl-pending', f'table:{name}:stale-request:after=abandoned-open', f'N{nd}: {name} still holds {pend[:4]} although no open is in flight')
                        cx.shape.append(('abandoned', ck))
                        # the identifier the abandoned attempt held is free again: the next opens succeed
                        if not sim.violations:
                            for _ in range(2):
                                if not _do_open(cx, link, side, ck, 0, 1, tag='open-after-abandoned-open'):
                                    break
        sim.trace.shape(tuple(cx.shape))
        return result(sim, nontrivial=cx.reused > 0 or sim.probes['link_cut_hit_operation_in_flight'] > 0)
    finally:
        sim.close()


SCENARIOS = {'tables': (gen_tables, run_tables)}
