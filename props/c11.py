"""C11 — GATT attribute permissions gate every read and write path.

Real: att.Attribute permission checks, gatt_server.Server read/write handlers, SMP pairing (to change the
link security by real means), everything below. Stub: the raw ATT client (as in C10), pairing delegates.
"""
from __future__ import annotations

import struct

from bsim import gattdb, pairing
from bsim.sim import PROFILE_NAMES, HarnessError, Sim, World, describe_task, result

PROPERTY = 'C11'
PLAN = {
    'quick': [('perms', 1500)],
    'thorough': [('perms', 50000)],
}
WALL_CAP = {'quick': 150, 'thorough': 1500}
EVIDENCE = {
    'level': 'exploration',
    'rule': ('generated database whose characteristic values and descriptors each hold a unique canary and a permission mask '
             'drawn from all 256 combinations; the link security is changed by real means between request batches: plain -> '
             'Just-Works pairing (encrypted, unauthenticated) -> passkey pairing (authenticated) -> reconnect (plain). Every '
             'reading and writing ATT operation (read, read blob, read by type, read by group type, read multiple, read multiple '
             'variable, find by type value with the exact value, write request, write command) is aimed at every generated '
             'attribute in every phase, on the fixed bearer and on an enhanced bearer. Non-trivial: at least one refused and one '
             'granted access in an encrypted phase; distinct = distinct (phase sequence, set of (op, requirement class, verdict)).'),
    'real': ['bumble.att.Attribute.read_value/write_value', 'bumble.gatt_server.Server', 'bumble.smp (pairing to change link security)', 'bumble.device'],
    'stub': ['raw ATT client', 'pairing delegates'],
    'assumptions': ['bumble has no authorisation mechanism: an authorisation requirement is never met',
                    'ground truth for authenticated = the association model the harness configured (Just Works vs passkey)',
                    'a refused access may be answered with any error that corresponds to a requirement that really failed',
                    'granting less than the permissions allow is not a violation'],
}

ATT_CID = 4
EATT_PSM = 0x27
R, W, RE, WE, RA, WA, RZ, WZ = 0x01, 0x02, 0x04, 0x08, 0x10, 0x20, 0x40, 0x80


def gen_perms(rng, tier, seed):
    db = {'services': []}
    n = 0
    for si in range(rng.randint(1, 3)):
        chars = []
        for _ in range(rng.randint(1, 4)):
            n += 1
            descs = []
            for _ in range(rng.choice([0, 0, 1])):
                n += 1
                descs.append({'uuid': '%04X' % (0xF800 + n), 'perms': rng.randrange(256), 'value': _canary(n, rng.choice([8, 12, 30]))})
            # some characteristics of a service share their UUID (a Read By Type over the range then meets several of them)
            cu = chars[-1]['uuid'] if chars and rng.random() < 0.3 else '%04X' % (0xF400 + n)
            # declared properties do not gate access (the permissions do): notify-only, read-only and write-only characteristics
            # carry requirements like any other
            props = rng.choice([0x0A, 0x0A, 0x0A, 0x10, 0x20, 0x02, 0x08, 0x12])
            if props & 0x30 == 0 and rng.random() < 0.25:
                # the application declares the Client Characteristic Configuration descriptor itself, with requirements of its own
                n += 1
                props |= 0x10
                descs.append({'uuid': '2902', 'perms': rng.randrange(256), 'value': _canary(n, 8)})
            chars.append({'uuid': cu, 'props': props, 'perms': rng.randrange(256), 'value': _canary(n + 500, rng.choice([8, 10, 20, 30, 100, 300])),
                          'kind': rng.choice(['static', 'static', 'sync_cb', 'async_cb']), 'delay': rng.choice([0.0, 0.001]), 'descs': descs})
        db['services'].append({'uuid': '%04X' % (0xF300 + si), 'primary': True, 'includes': [], 'chars': chars})
    phases = ['plain']
    for _ in range(rng.choice([1, 2, 2, 3])):
        phases.append(rng.choice(['jw', 'passkey', 'reconnect', 'enc_paused']))
    return {'db': db, 'phases': phases, 'eatt': rng.random() < 0.3, 'profile': rng.choice(PROFILE_NAMES), 'order': rng.randrange(1 << 30),
            'mtu': rng.choice([23, 23, 64, 200]), '_lists': ['phases']}


def _canary(i, n):
    tok = b'CN%04dRY' % i
    return (tok + bytes((i * 7 + k) & 0x7F | 0x80 for k in range(n)))[:max(n, 8)]


def _why(perms, encrypted, authenticated, write):
    """Requirement classes that fail for this access, canonical order; empty = access allowed."""
    base, enc, authn, authz = (W, WE, WA, WZ) if write else (R, RE, RA, RZ)
    why = []
    if not perms & base:
        why.append('not-' + ('writable' if write else 'readable'))
    if perms & authz:
        why.append('needs-authorization')
    if perms & authn and not authenticated:
        why.append('needs-authentication')
    if perms & enc and not encrypted:
        why.append('needs-encryption')
    return why


ERR = {'not-readable': 0x02, 'not-writable': 0x03, 'needs-authorization': 0x08, 'needs-authentication': 0x05, 'needs-encryption': 0x0F}


def run_perms(case):
    import random

    from bumble import l2cap
    from bumble.keys import MemoryKeyStore

    sim = Sim(case['seed'], case.get('profile', 'zero'), slow_node='N1')
    try:
        world = World(sim, 3)
        srv = world[1].device
        built = gattdb.build(srv, case['db'])
        if case['eatt']:
            srv.gatt_server.register_eatt(l2cap.LeCreditBasedChannelSpec(psm=EATT_PSM, mtu=247, mps=64, max_credits=8))
        world.power_on()
        for nd in world.nodes:
            nd.device.keystore = MemoryKeyStore()
        # targets: (attribute object, permission mask, token)
        targets = []
        for (si, ci), ch in built.char_objs.items():
            c = case['db']['services'][si]['chars'][ci]
            targets.append({'attr': ch, 'perms': c['perms'], 'token': bytes(c['value'][:8]), 'kind': 'value', 'char': ch})
            for d, dobj in zip(c['descs'], ch.descriptors):
                targets.append({'attr': dobj, 'perms': d['perms'], 'token': bytes(d['value'][:8]), 'kind': 'descriptor', 'char': None})
        # characteristic DECLARATIONS: their constructor fixes the permissions, a requirement can only be assigned afterwards
        from bumble import att as _att
        decl_rng = random.Random(case['order'] ^ 0xDEC1)
        for a in list(srv.gatt_server.attributes):
            if type(a).__name__ == 'CharacteristicDeclaration' and a.characteristic in built.char_objs.values() and decl_rng.random() < 0.5:
                perms = 0x01 | decl_rng.choice([0x04, 0x10, 0x40, 0x14, 0x04, 0x10])  # readable + a read requirement
                a.permissions = _att.Attribute.Permissions(perms)
                targets.append({'attr': a, 'perms': perms, 'token': bytes(a.value)[:19], 'kind': 'declaration', 'char': None})
        # SERVICE declarations restricted the same way (the application assigns service.permissions after building it): the
        # declaration's value is the service UUID, which Read By Group Type / Read By Type hand out together with the handle range
        for a in list(srv.gatt_server.attributes):
            if a in built.services and decl_rng.random() < 0.35:
                perms = 0x01 | decl_rng.choice([0x04, 0x10, 0x40, 0x14])
                a.permissions = _att.Attribute.Permissions(perms)
                targets.append({'attr': a, 'perms': perms, 'token': bytes(a.value), 'kind': 'declaration', 'char': None, 'service': True})
                sim.probe('service_declaration_with_a_read_requirement')
        order = random.Random(case['order'])
        state = {'enc': False, 'authn': False, 'conn': None, 'bearers': {}, 'seen': []}
        nattr = len(srv.gatt_server.attributes)
        verdicts = set()

        def cur(t):
            a = t['attr']
            return gattdb.current_value(a) if t['kind'] == 'value' else bytes(a.value)  # descriptors and declarations hold static bytes

        def connect():
            c0, c1 = world.connect_le(0, 1)
            state['conn'] = (c0, c1)
            state['enc'] = state['authn'] = False
            seen = state['seen']
            fixed = {'name': 'fixed', 'send': lambda pdu: world[0].host.send_l2cap_pdu(c0.handle, ATT_CID, pdu), 'rx': []}
            world[0].device.l2cap_channel_manager.register_fixed_channel(ATT_CID, lambda h, pdu: (fixed['rx'].append(bytes(pdu)), seen.append(bytes(pdu))))
            state['bearers'] = {'fixed': fixed}
            # MTU
            if case['mtu'] > 23:
                ask(fixed, struct.pack('<BH', 0x02, case['mtu']))
            if case['eatt']:
                st, t = sim.run(c0.create_l2cap_channel(spec=l2cap.LeCreditBasedChannelSpec(psm=EATT_PSM, mtu=247, mps=64, max_credits=8)), 30.0)
                if st != 'done' or t.exception() is not None:
                    raise HarnessError(f'EATT open failed: {st}')
                chan = t.result()
                eb = {'name': 'eatt', 'send': lambda pdu: sim.call(chan.write, pdu), 'rx': []}
                chan.sink = lambda pdu: (eb['rx'].append(bytes(pdu)), seen.append(bytes(pdu)))
                state['bearers']['eatt'] = eb
                sim.loop.settle()

        def ask(b, pdu, expect_response=True):
            before = len(b['rx'])
            b['send'](pdu)
            if expect_response:
                sim.loop.drive(lambda: len(b['rx']) > before, vt_budget=31.0, step_budget=200_000)
            sim.loop.settle()
            sim.loop.advance(0.05)
            return b['rx'][before:]

        def leak_check(op, pdus, link):
            for t in targets:
                why = _why(t['perms'], state['enc'], state['authn'], write=False)
                if not why:
                    continue
                for p in pdus:
                    if t['token'] in p:
                        sim.violation_once(f'leak:{op}:{why[0]}', f'disclosed:{op}:{why[0]}',
                                           f'{op} returned the value of a {t["kind"]} with permissions {t["perms"]:#04x} on a {link} link ({", ".join(why)})')

        def batch(link):
            bl = list(state['bearers'].values())
            ts = list(targets)
            order.shuffle(ts)
            for t in ts:
                b = order.choice(bl)
                h = t['attr'].handle
                typ = gattdb.uuid_bytes_from_obj(t['attr'].type)
                perms = t['perms']
                rwhy = _why(perms, state['enc'], state['authn'], write=False)
                wwhy = _why(perms, state['enc'], state['authn'], write=True)
                # ---- single-handle reads: refusal must carry a matching error
                for op, pdu in (('read', struct.pack('<BH', 0x0A, h)), ('read_blob', struct.pack('<BHH', 0x0C, h, order.choice([0, 1, 5])))):
                    rsp = ask(b, pdu)
                    leak_check(op, rsp, link)
                    if rwhy:
                        _refusal(sim, op, rsp, pdu[0], rwhy, link, t, verdicts)
                    elif rsp and rsp[0][0] == pdu[0] + 1:
                        verdicts.add((op, 'granted', link))
                        if link != 'plain':
                            sim.probe('granted_on_secured_link')
                # ---- the same read from an unpaired second client while the first client's read is being served
                p2 = state.get('plain2')
                plain_why = _why(perms, False, False, write=False)
                if p2 is not None and link != 'plain' and not rwhy and plain_why and t['kind'] == 'value':
                    n1, n2 = len(b['rx']), len(p2['rx'])
                    b['send'](struct.pack('<BH', 0x0A, h))
                    p2['send'](struct.pack('<BH', 0x0A, h))
                    sim.loop.drive(lambda: len(b['rx']) > n1 and len(p2['rx']) > n2, vt_budget=31.0, step_budget=200_000)
                    sim.loop.settle()
                    sim.probe('overlapping_reads_from_two_clients')
                    for p in p2['rx'][n2:]:
                        if p[:1] == b'\x0b' and t['token'] in p:
                            sim.violation_once(f'leak:overlap:{plain_why[0]}', f'disclosed:read:to-unpaired-client-during-authorised-read:{plain_why[0]}',
                                               f'an unpaired client read a value with permissions {perms:#04x} while a {link} client was reading it')
                    if not any(p[:1] == b'\x0b' for p in b['rx'][n1:]):
                        sim.violation_once('overlap-refused', f'refused:read:authorised-client-during-unpaired-read', f'{[x.hex() for x in b["rx"][n1:]]}')
                # ---- Read Blob at a non-zero offset from the unpaired client, after the authorised client read the whole (long) value
                if p2 is not None and link != 'plain' and not rwhy and plain_why and t['kind'] == 'value' and len(cur(t)) > 22:
                    ask(b, struct.pack('<BH', 0x0A, h))
                    ask(b, struct.pack('<BHH', 0x0C, h, 22))
                    off = order.choice([1, 5, 22])
                    rsp2 = ask(p2, struct.pack('<BHH', 0x0C, h, off))
                    sim.probe('read_blob_from_unpaired_client_after_authorised_long_read')
                    val = cur(t)
                    for p in rsp2:
                        if p[:1] == b'\x0d' and len(p) > 4 and p[1:] == val[off:off + len(p) - 1]:
                            sim.violation_once(f'leak:blob-after:{plain_why[0]}', f'disclosed:read_blob:to-unpaired-client-after-authorised-long-read:{plain_why[0]}',
                                               f'Read Blob at offset {off} returned {len(p) - 1} bytes of a value with permissions {perms:#04x} to a client on a plain link')
                # ---- range / list reads: must not disclose
                others = [x['attr'].handle for x in order.sample(ts, min(len(ts), 2))]
                for op, pdu in (
                    ('read_by_type', struct.pack('<BHH', 0x08, 1, 0xFFFF) + typ),
                    ('read_by_type_narrow', struct.pack('<BHH', 0x08, h, h) + typ),
                    ('read_multiple', bytes([0x0E]) + struct.pack('<H', h) + b''.join(struct.pack('<H', o) for o in others)),
                    ('read_multiple_variable', bytes([0x20]) + b''.join(struct.pack('<H', o) for o in others) + struct.pack('<H', h)),
                    ('read_by_group_type', struct.pack('<BHH', 0x10, 1, 0xFFFF) + bytes.fromhex('0028')),
                    ('find_information', struct.pack('<BHH', 0x04, h, h)),
                ):
                    rsp = ask(b, pdu)
                    leak_check(op.replace('_narrow', ''), rsp, link)
                    if not rsp:
                        sim.violation_once(f'noresp:{op}', f'no-response:{op.replace("_narrow", "")}:{(rwhy or ["permitted"])[0]}', f'request {pdu.hex()} got no answer at all')
                # ---- a handle list in which the refused handle is NOT the first: the server gets as far as that handle (the value
                # before it is short enough to leave room at any ATT_MTU), refuses the access, and the whole request is answered
                # with that error - not with the values read so far
                # (left out, as for Read By Type below: what the open findings already report)
                sec = [w for w in rwhy if w != 'not-readable' and not (w == 'needs-authentication' and state['enc'])]
                short = [x for x in ts if x is not t and len(cur(x)) <= 8 and not _why(x['perms'], state['enc'], state['authn'], write=False)]
                if sec and short:
                    o = short[0]['attr'].handle
                    for op, opcode in (('read_multiple', 0x0E), ('read_multiple_variable', 0x20)):
                        rsp = ask(b, bytes([opcode]) + struct.pack('<HH', o, h))
                        sim.probe('handle_list_with_the_refused_handle_second')
                        leak_check(op, rsp, link)
                        if rsp and rsp[0][:1] == bytes([opcode + 1]):
                            sim.violation_once(f'listok:{op}:{sec[0]}', f'handle-list-read-answered-although-one-handle-is-refused:{op}:{sec[0]}',
                                               f'{op} over [{o:#06x}, {h:#06x}], the second (permissions {perms:#04x}: {", ".join(rwhy)}) refused on a {link} link, got {rsp[0][:6].hex()}..')
                # ---- Read By Type over the whole range: when the FIRST attribute of that type is refused for a security reason,
                # the answer is that refusal (Error Response naming it), not the attributes that follow
                same = sorted((x for x in targets if x['kind'] == 'value' and gattdb.uuid_bytes_from_obj(x['attr'].type) == typ), key=lambda x: x['attr'].handle)
                if len(same) > 1 and same[0] is t:
                    # (an authentication requirement on an encrypted link is the known finding "LE encryption counts as authentication":
                    #  it is reported by the single-attribute checks and left out here)
                    sec = [w for w in rwhy if w != 'not-readable' and not (w == 'needs-authentication' and state['enc'])]
                    if sec:
                        rsp = ask(b, struct.pack('<BHH', 0x08, 1, 0xFFFF) + typ)
                        sim.probe('read_by_type_over_several_attributes_first_refused')
                        r = rsp[0] if rsp else b''
                        if not (r[:1] == b'\x01' and len(r) >= 5 and r[1] == 0x08 and struct.unpack_from('<H', r, 2)[0] == h and r[4] in {ERR[w] for w in rwhy}):
                            sim.violation_once(f'rbt-first:{sec[0]}', f'read_by_type:first-refused-attribute-not-reported:{sec[0]}',
                                               f'first attribute of the type ({h:#06x}, permissions {perms:#04x}: {", ".join(rwhy)}) is refused, answer was {r[:8].hex()}')
                # ---- find by type value with the exact value: a hit is a disclosure
                val = cur(t)
                if len(typ) == 2:
                    rsp = ask(b, struct.pack('<BHH', 0x06, 1, 0xFFFF) + typ + val[:16])
                    if rwhy and rsp and rsp[0][0] == 0x07:
                        hits = [struct.unpack_from('<H', rsp[0], 1 + 4 * i)[0] for i in range((len(rsp[0]) - 1) // 4)]
                        if h in hits and len(val) <= 16:
                            sim.violation_once(f'leak:fbtv:{rwhy[0]}', f'disclosed:find_by_type_value:{rwhy[0]}',
                                               f'Find By Type Value confirmed the exact value of a {t["kind"]} with permissions {perms:#04x} ({", ".join(rwhy)})')
                # ---- writes
                for op, opcode in (('write_request', 0x12), ('write_command', 0x52)):
                    if t['kind'] == 'declaration':
                        break  # read side only (a declaration has no write path of its own)
                    before = cur(t)
                    new = t['token'] + bytes([order.randrange(1, 250)]) * 3 + (b'q' if op == 'write_request' else b'c')
                    if wwhy and before and order.random() < 0.3:
                        # a guess that happens to be right: writing the value the attribute already holds is refused like any other
                        # write (an acknowledgement would confirm the guess)
                        new = before
                        sim.probe('refused_write_carrying_the_stored_value')
                    rsp = ask(b, struct.pack('<BH', opcode, h) + new, expect_response=(opcode == 0x12))
                    after = cur(t)
                    if wwhy:
                        if after != before:
                            sim.violation_once(f'written:{op}:{wwhy[0]}', f'written:{op}:{wwhy[0]}',
                                               f'{op} changed a {t["kind"]} with permissions {perms:#04x} on a {link} link ({", ".join(wwhy)})')
                        elif opcode == 0x12:
                            _refusal(sim, op, rsp, opcode, wwhy, link, t, verdicts)
                    else:
                        if after == new:
                            verdicts.add((op, 'granted', link))
                    leak_check(op, rsp, link)

        def pair(kind):
            c0, c1 = state['conn']
            log, shared = [], {}
            if kind == 'jw':
                pairing.install(sim, world[0].device, 'I', 3, True, False, True, {}, log, shared)
                pairing.install(sim, world[1].device, 'R', 3, True, False, True, {}, log, shared)
            else:
                pairing.install(sim, world[0].device, 'I', 2, True, True, True, {}, log, shared)
                pairing.install(sim, world[1].device, 'R', 0, True, True, True, {}, log, shared)
            st, t = sim.run(c0.pair(), 90.0)
            if st != 'done' or t.exception() is not None:
                raise HarnessError(f'pairing({kind}) failed: {st} {t.exception() if st == "done" else describe_task(t)}')
            sim.loop.settle()
            if not (c0.is_encrypted and c1.is_encrypted):
                raise HarnessError('link not encrypted after pairing')
            used = {x[1] for x in log}
            state['enc'] = True
            state['authn'] = kind == 'passkey' and 'get_number' in used and 'display' in used
            if kind == 'passkey' and not state['authn']:
                raise HarnessError(f'passkey model not used: {log}')

        connect()
        # a second client that never pairs: its requests overlap with those of the first one
        c2, _c2s = world.connect_le(2, 1)
        plain2 = {'name': 'fixed', 'send': lambda pdu: world[2].host.send_l2cap_pdu(c2.handle, ATT_CID, pdu), 'rx': []}
        world[2].device.l2cap_channel_manager.register_fixed_channel(ATT_CID, lambda h, pdu: plain2['rx'].append(bytes(pdu)))
        state['plain2'] = plain2
        link = 'plain'
        shape = []
        for ph in case['phases']:
            def reconnect():
                c0, c1 = state['conn']
                sim.must(c0.disconnect(), 'disconnect')
                sim.loop.settle()
                sim.loop.advance(0.1)
                connect()

            if ph in ('jw', 'passkey') and link == 'enc-paused':
                reconnect()
                link = 'plain'
            if ph == 'jw':
                if link != 'plain':
                    continue  # each connection is paired at most once here (re-pairing an encrypted link is C13's business)
                pair('jw')
                link = 'encrypted'
            elif ph == 'passkey':
                if link == 'authenticated':
                    continue
                if link != 'plain':
                    reconnect()
                pair('passkey')
                link = 'authenticated'
            elif ph == 'enc_paused':
                # the server's controller reports that encryption is off again (encryption pause / key refresh in progress):
                # the pairing outcome is remembered, the link is not encrypted
                if link not in ('encrypted', 'authenticated'):
                    continue
                from bumble import hci
                c0, c1 = state['conn']
                world[1].c2h.inject(bytes(hci.HCI_Encryption_Change_Event(status=0, connection_handle=c1.handle, encryption_enabled=0)))
                sim.loop.settle(vt_budget=1.0)
                if c1.encryption:
                    raise HarnessError('encryption still reported on')
                state['enc'] = False
                state['authn'] = bool(c1.authenticated)
                link = 'enc-paused'
            elif ph == 'reconnect':
                reconnect()
                link = 'plain'
            sim.fault(f'security:{link}')
            batch(link)
            shape.append(link)
        sim.trace.shape(tuple(shape), tuple(sorted(verdicts)))
        nontrivial = sim.probes['granted_on_secured_link'] > 0 and any(v[1] == 'refused' for v in verdicts)
        return result(sim, nontrivial=nontrivial)
    finally:
        sim.close()


def _refusal(sim, op, rsp, opcode, why, link, t, verdicts):
    """A refused single-handle access is answered by an error that matches a requirement that really failed."""
    allowed = {ERR[w] for w in why}
    if not rsp:
        sim.violation_once(f'noresp:{op}', f'no-response:{op}:{why[0]}', 'refused access got no answer at all')
        return
    r = rsp[0]
    if r[0] == 0x01 and len(r) >= 5 and r[1] == opcode:
        if r[4] in allowed:
            verdicts.add((op, 'refused', link))
        else:
            sim.violation_once(f'wrongerr:{op}:{why[0]}', f'refused-with-unrelated-error:{op}:{why[0]}:code={r[4]:#04x}',
                               f'{op} on a {t["kind"]} with permissions {t["perms"]:#04x} ({", ".join(why)}) answered with error {r[4]:#04x}')
    elif r[0] == opcode + 1:
        if op.startswith('write'):
            sim.violation_once(f'accepted:{op}:{why[0]}', f'write-acknowledged-but-not-permitted:{op}:{why[0]}',
                               f'Write Response sent for a {t["kind"]} with permissions {t["perms"]:#04x} ({", ".join(why)})')
        elif op == 'read' and t['token'] and t['token'] not in r:
            # a granted read is reported by the leak check (the value carries the canary); this is a refused read answered with
            # a Read Response that does NOT carry the attribute's value: something else is being served under that handle
            sim.violation_once(f'answered:{op}:{why[0]}', f'read-answered-but-not-permitted:{op}:{why[0]}',
                               f'{op} on a {t["kind"]} with permissions {t["perms"]:#04x} ({", ".join(why)}) got response {r[:8].hex()}.. without the stored value')


SCENARIOS = {'perms': (gen_perms, run_perms)}
