"""C16 — teardown is complete: no stale connection state, no waiter left hanging.

Real: everything (full Device + Host + Controller stacks, GATT, SMP, L2CAP, RFCOMM, SDP, AVDTP).
Stub: nothing besides the fault triggers (disconnect by either side, link loss on both sides, transport loss).
"""
from __future__ import annotations

import asyncio

from bsim import gattdb, pairing
from bsim.sim import PROFILE_NAMES, HarnessError, Sim, World, describe_task, innermost_bumble_frame, result

PROPERTY = 'C16'
PLAN = {
    'quick': [('teardown', 420), ('reuse', 300)],
    'thorough': [('teardown', 16000), ('reuse', 20000)],
}
WALL_CAP = {'quick': 160, 'thorough': 1700}
EVIDENCE = {
    'level': 'fault_enumeration',
    'rule': ('one procedure per case out of: GATT read / long read / write / discover services / discover all / subscribe / notify+read, CCCD '
             'write over an EATT bearer, server-side indicate awaiting confirmation, pair(), encrypt(), LE CoC connect / disconnect / write+drain, '
             'connection parameter update over L2CAP, remote LE / classic features, remote name, classic channel connect / disconnect, ERTM '
             'transfer, RFCOMM multiplexer start / DLC open / transfer+drain, SDP query with continuation, AVDTP discover, a pending LE or BR/EDR '
             'connect, a pending disconnect, two queued HCI commands, eSCO set-up / disconnect, CIS create / disconnect (with waiters on the end of the link), '
             'RFCOMM shutdown under a DLC with queued data, an enhanced ATT bearer closed while the connection goes away; 40% of the cases add a second idle connection on the initiator device. A fault-free dry run counts the N messages the procedure puts on the '
             'air; the procedure is then re-run once for EVERY k in 0..N with the drawn fault (disconnect by the initiator side, disconnect by '
             'the responder side, link loss reported on both sides, HCI transport loss on the initiator, transport loss on the responder, Device.power_off() on either side) fired '
             'right after air message k. evaluations = executions (dry run + one per k). Boundaries are air messages or, for transport loss, the HCI packets read by the host that loses its transport; some cases stall a host during the fault. Scenario reuse: CCCD write + disconnection + a new connection that gets the same handle, all read by the stalled server host in one burst. Non-trivial: the fault landed while the procedure '
             'was still in flight; distinct = distinct (procedure, fault kind, k, profile).'),
    'real': ['bumble.device', 'bumble.host', 'bumble.controller', 'bumble.link', 'bumble.l2cap', 'bumble.gatt_client', 'bumble.gatt_server', 'bumble.smp',
             'bumble.rfcomm', 'bumble.sdp', 'bumble.avdtp'],
    'stub': ['fault triggers only'],
    'assumptions': ['a virtual-controller classic_connections entry with handle 0 is the placeholder of a page in progress, not a live connection',
                    'after transport loss the unreachable controller is not compared',
                    'a waiter may end with a result, an error or a cancellation; only a task still pending 60 virtual seconds after the fault is a violation',
                    'link loss on both sides is emulated by both virtual controllers reporting Disconnection Complete (reason 0x08)'],
    'exhaustive': 'every air-message boundary k in 0..N of the generated (procedure, fault kind, latency profile) case',
}

LE_PROCS = ['gatt_read', 'gatt_long_read', 'gatt_write', 'gatt_discover_services', 'gatt_discover_all', 'gatt_subscribe', 'gatt_indicate', 'pair',
            'coc_connect', 'coc_disconnect', 'coc_write_drain', 'connect_le_pending', 'disconnect_pending', 'hci_command', 'eatt_subscribe', 'encrypt',
            'gatt_notify_then_read', 'remote_features', 'update_parameters_l2cap', 'cis_create', 'cis_disconnect', 'eatt_bearer_close', 'ecbfc_connect', 'eatt_connect']
CLASSIC_PROCS = ['classic_connect_pending', 'classic_remote_features', 'classic_remote_name', 'classic_connect', 'classic_disconnect', 'ertm_transfer', 'rfcomm_start', 'rfcomm_open_dlc', 'rfcomm_transfer', 'sdp_query', 'avdtp_discover',
                 'sco_setup', 'sco_disconnect', 'rfcomm_shutdown_drain']
FAULTS = ['local_disconnect', 'remote_disconnect', 'link_loss_both', 'transport_loss_initiator', 'transport_loss_responder', 'power_off_initiator', 'power_off_responder']


def gen_teardown(rng, tier, seed):
    proc = rng.choice(LE_PROCS + CLASSIC_PROCS)
    return {'proc': proc, 'fault': rng.choice(FAULTS), 'profile': rng.choice(['zero', 'lan', 'radio', 'skewed', 'burst', 'burst-radio']), 'max_k': 60 if tier == 'quick' else 200,
            'bystander': rng.random() < 0.4,
            # a host that is not reading its transport while the fault happens: the events pile up and are read in one go
            'stall': rng.choice([None, None, None, [0, 0.05], [1, 0.05], [0, 0.3], [1, 0.3]]),
            # where the boundaries are counted: messages on the air, or (transport loss only) HCI packets read by the host that loses
            # its transport - the loss then happens right after packet k, before any task woken by that packet has run
            'boundary': rng.choice(['air', 'air', 'hci']),
            # the application had waited for the transport source's `terminated` under a timeout that expired before the loss
            'terminated_given_up': rng.random() < 0.4}


class Ctx:
    pass


def _build(sim, case):
    """World + connection + procedure-specific set-up. Returns ctx with start() -> list[(name, coroutine)]."""
    from bumble import att, gatt, l2cap
    from bumble.device import Peer

    proc = case['proc']
    classic = proc in CLASSIC_PROCS
    cx = Ctx()
    cx.case = case
    cx.extra_tasks = []
    nb = 3 if case.get('bystander') else 2
    world = World(sim, nb, classic=classic)
    cx.world = world
    cx.classic = classic
    cx.by0 = cx.by2 = None
    d0, d1 = world[0].device, world[1].device
    # server database (used by the GATT procedures)
    desc = {'services': [{'uuid': 'F300', 'primary': True, 'includes': [], 'chars': [
        {'uuid': 'F401', 'props': 0x2A, 'perms': 3, 'value': bytes(range(60)) * 3, 'kind': 'async_cb', 'delay': 0.001, 'descs': []},
        {'uuid': 'F402', 'props': 0x0A, 'perms': 3, 'value': b'short', 'kind': 'static', 'delay': 0, 'descs': [{'uuid': 'F801', 'perms': 3, 'value': b'd'}]}]},
        {'uuid': 'F301', 'primary': True, 'includes': [], 'chars': [{'uuid': 'F403', 'props': 0x12, 'perms': 3, 'value': b'n', 'kind': 'static', 'delay': 0, 'descs': []}]}]}
    built = gattdb.build(d1, desc)
    cx.built = built
    world.power_on()
    if proc == 'classic_connect_pending':
        c0 = c1 = None
    elif classic:
        got = []
        d1.once('connection', got.append)
        c0 = sim.must(d0.connect(world[1].controller.public_address, transport=0), 'classic connect')
        sim.loop.drive(lambda: bool(got), 10.0)
        sim.loop.settle()
        if not got:
            raise HarnessError('no peer connection')
        c1 = got[0]
    elif proc == 'connect_le_pending':
        c0 = c1 = None
    else:
        c0, c1 = world.connect_le(0, 1)
    cx.c0, cx.c1 = c0, c1
    if nb == 3:
        # a second, idle connection of the initiator's device: it has to survive whatever happens to the first one
        gattdb.build(world[2].device, {'services': [{'uuid': 'F3B0', 'primary': True, 'includes': [], 'chars': [
            {'uuid': 'F4B1', 'props': 0x02, 'perms': 3, 'value': b'bystander', 'kind': 'static', 'delay': 0, 'descs': []}]}]})
        if classic:
            got2 = []
            world[2].device.once('connection', got2.append)
            cx.by0 = sim.must(d0.connect(world[2].controller.public_address, transport=0), 'classic connect (bystander)')
            sim.loop.drive(lambda: bool(got2), 10.0)
            if not got2:
                raise HarnessError('no bystander connection')
            cx.by2 = got2[0]
        else:
            cx.by0, cx.by2 = world.connect_le(0, 2)
        sim.loop.settle(vt_budget=1.0)
    long_char = built.char_objs[(0, 0)]
    short_char = built.char_objs[(0, 1)]

    if proc.startswith('gatt_') and proc != 'gatt_indicate':
        peer = Peer(c0)
        if proc == 'gatt_read':
            cx.start = lambda: [('read_value', peer.gatt_client.read_value(short_char.handle))]
        elif proc == 'gatt_long_read':
            cx.start = lambda: [('read_value(long)', peer.gatt_client.read_value(long_char.handle))]
        elif proc == 'gatt_write':
            cx.start = lambda: [('write_value', peer.gatt_client.write_value(short_char.handle, b'new', with_response=True))]
        elif proc == 'gatt_discover_services':
            cx.start = lambda: [('discover_services', peer.discover_services())]
        elif proc == 'gatt_discover_all':
            cx.start = lambda: [('discover_all', peer.discover_all())]
        else:
            sim.must(peer.discover_all(), 'discover')
            ch = next(c for s in peer.services for c in s.characteristics if c.handle == long_char.handle)
            cx.start = lambda: [('subscribe', peer.subscribe(ch, lambda v: None, prefer_notify=False))]
    elif proc == 'gatt_indicate':
        peer = Peer(c0)
        sim.must(peer.discover_all(), 'discover')
        ch = next(c for s in peer.services for c in s.characteristics if c.handle == long_char.handle)
        sim.must(peer.subscribe(ch, lambda v: None, prefer_notify=False), 'subscribe')
        sim.loop.settle()
        cx.start = lambda: [('indicate_subscribers', d1.gatt_server.indicate_subscribers(long_char, b'indicated value'))]
        cx.initiator = 1
    elif proc == 'gatt_notify_then_read':
        peer = Peer(c0)
        notif = built.char_objs[(1, 0)]

        async def both():
            await d1.gatt_server.notify_subscribers(notif, b'nn', force=True)
            return await peer.gatt_client.read_value(long_char.handle)
        cx.start = lambda: [('notify+read_value', both())]
    elif proc == 'eatt_subscribe':
        from bumble.gatt_client import Client as GattClient
        d1.gatt_server.register_eatt()
        peer = Peer(c0)
        sim.must(peer.discover_all(), 'discover')
        eclient = sim.must(GattClient.connect_eatt(c0), 'eatt')
        ch = next(c for s in peer.services for c in s.characteristics if c.handle == long_char.handle)
        cccd = next(d for d in ch.descriptors if d.type == gatt.GATT_CLIENT_CHARACTERISTIC_CONFIGURATION_DESCRIPTOR)
        cx.start = lambda: [('eatt.write_value(cccd)', eclient.write_value(cccd.handle, b'\x02\x00', with_response=True))]
    elif proc == 'ecbfc_connect':
        spec = l2cap.LeCreditBasedChannelSpec(psm=0x87, mtu=100, mps=40, max_credits=2)
        d1.create_l2cap_server(spec, handler=lambda ch: None)
        cx.start = lambda: [('create_enhanced_credit_based_channels', d0.l2cap_channel_manager.create_enhanced_credit_based_channels(c0, spec, 2))]
    elif proc == 'eatt_connect':
        from bumble.gatt_client import Client as GattClient
        d1.gatt_server.register_eatt()
        cx.start = lambda: [('Client.connect_eatt', GattClient.connect_eatt(c0))]
    elif proc == 'eatt_bearer_close':
        # an enhanced bearer with a subscription is closed (its L2CAP channel only); the connection goes away during or after that
        from bumble.gatt_client import Client as GattClient
        d1.gatt_server.register_eatt()
        peer = Peer(c0)
        sim.must(peer.discover_all(), 'discover')
        eclient = sim.must(GattClient.connect_eatt(c0), 'eatt')
        ch = next(c for s in peer.services for c in s.characteristics if c.handle == long_char.handle)
        cccd = next(d for d in ch.descriptors if d.type == gatt.GATT_CLIENT_CHARACTERISTIC_CONFIGURATION_DESCRIPTOR)
        sim.must(eclient.write_value(cccd.handle, b'\x02\x00', with_response=True), 'subscribe over eatt')
        sim.loop.settle(vt_budget=1.0)
        cx.start = lambda: [('eatt bearer.disconnect', eclient.bearer.disconnect())]
    elif proc == 'encrypt':
        from bumble.keys import MemoryKeyStore
        d0.keystore, d1.keystore = MemoryKeyStore(), MemoryKeyStore()
        log, shared = [], {}
        pairing.install(sim, d0, 'I', 3, True, False, True, {}, log, shared)
        pairing.install(sim, d1, 'R', 3, True, False, True, {}, log, shared)
        sim.must(c0.pair(), 'pair')
        sim.loop.settle(vt_budget=1.0)
        cx.start = lambda: [('encrypt', c0.encrypt(enable=True))]
    elif proc == 'remote_features':
        cx.start = lambda: [('get_remote_le_features', c0.get_remote_le_features())]
    elif proc == 'classic_remote_features':
        cx.start = lambda: [('get_remote_classic_features', c0.get_remote_classic_features())]
    elif proc == 'update_parameters_l2cap':
        cx.start = lambda: [('update_parameters(l2cap)', c1.update_parameters(30.0, 50.0, 0, 4000.0, use_l2cap=True))]
        cx.initiator = 1
    elif proc == 'classic_remote_name':
        cx.start = lambda: [('request_remote_name', c0.request_remote_name())]
    elif proc == 'pair':
        from bumble.keys import MemoryKeyStore
        d0.keystore, d1.keystore = MemoryKeyStore(), MemoryKeyStore()
        log, shared = [], {}
        pairing.install(sim, d0, 'I', 2, True, True, True, {}, log, shared)
        pairing.install(sim, d1, 'R', 0, True, True, True, {}, log, shared)
        cx.start = lambda: [('pair', c0.pair())]
    elif proc.startswith('coc_'):
        spec = l2cap.LeCreditBasedChannelSpec(psm=0x85, mtu=100, mps=40, max_credits=2)
        acc = []
        d1.create_l2cap_server(spec, handler=acc.append)
        if proc == 'coc_connect':
            cx.start = lambda: [('create_l2cap_channel(le)', c0.create_l2cap_channel(spec=spec))]
        else:
            ch = sim.must(c0.create_l2cap_channel(spec=spec), 'coc')
            sim.loop.settle()
            acc[0].sink = lambda d: None
            if proc == 'coc_disconnect':
                cx.start = lambda: [('coc.disconnect', ch.disconnect())]
            else:
                def go():
                    ch.write(bytes(900))
                    return [('coc.drain', ch.drain())]
                cx.start = go
    elif proc == 'connect_le_pending':
        async def adv_later():
            await asyncio.sleep(0.05)
            await d1.start_advertising(advertising_interval_min=30.0, auto_restart=False)
        cx.start = lambda: [('connect', d0.connect(d1.random_address, timeout=5.0)), ('advertise', adv_later())]
    elif proc == 'classic_connect_pending':
        cx.start = lambda: [('connect(classic)', d0.connect(world[1].controller.public_address, transport=0, timeout=5.0))]
    elif proc == 'disconnect_pending':
        cx.start = lambda: [('disconnect', c0.disconnect())]
    elif proc == 'hci_command':
        from bumble import hci
        cx.start = lambda: [('send_command', world[0].host.send_command(hci.HCI_LE_Read_Remote_Features_Command(connection_handle=c0.handle))),
                            ('send_command#2', world[0].host.send_command(hci.HCI_Read_BD_ADDR_Command()))]
    elif proc in ('classic_connect', 'classic_disconnect', 'ertm_transfer'):
        mode = l2cap.TransmissionMode.ENHANCED_RETRANSMISSION if proc == 'ertm_transfer' else l2cap.TransmissionMode.BASIC
        spec = l2cap.ClassicChannelSpec(psm=0x1007, mtu=672, mps=48, tx_window_size=3, mode=mode)
        acc = []
        d1.create_l2cap_server(spec, handler=acc.append)
        if proc == 'classic_connect':
            cx.start = lambda: [('create_l2cap_channel(classic)', c0.create_l2cap_channel(spec=spec))]
        else:
            ch = sim.must(c0.create_l2cap_channel(spec=spec), 'classic channel')
            sim.loop.settle()
            got_sdus = []
            acc[0].sink = got_sdus.append
            if proc == 'classic_disconnect':
                cx.start = lambda: [('channel.disconnect', ch.disconnect())]
            else:
                async def transfer():
                    for i in range(12):
                        ch.write(bytes([i]) * 200)
                    while len(got_sdus) < 12:
                        await asyncio.sleep(0.05)
                cx.start = lambda: [('ertm-transfer-observer', transfer())]
                cx.observer_only = True
    elif proc.startswith('rfcomm_'):
        from bumble import rfcomm
        acc = []

        async def mk():
            srv = rfcomm.Server(d1)
            srv.listen(acc.append, channel=1, max_frame_size=64, initial_credits=2)
        sim.must(mk(), 'rfcomm server')
        client = rfcomm.Client(c0)
        if proc == 'rfcomm_start':
            cx.start = lambda: [('rfcomm.Client.start', client.start())]
        else:
            mux = sim.must(client.start(), 'mux')
            if proc == 'rfcomm_open_dlc':
                cx.start = lambda: [('open_dlc', mux.open_dlc(1, max_frame_size=64, initial_credits=2))]
            else:
                dlc = sim.must(mux.open_dlc(1, max_frame_size=64, initial_credits=2), 'dlc')
                sim.loop.settle()
                cx.dlcs = [dlc, acc[0]]
                cx.dlc_closed = []
                for x in cx.dlcs:
                    x.on('close', lambda x=x: cx.dlc_closed.append(x))
                if proc == 'rfcomm_shutdown_drain':
                    # the peer grants no more credits: data stays queued; the session is shut down under it (DISC on DLCI 0)
                    def go():
                        dlc.write(bytes(1500))
                        return [('dlc.drain', dlc.drain()), ('rfcomm.Client.shutdown', client.shutdown())]
                else:
                    acc[0].sink = lambda d: None

                    def go():
                        dlc.write(bytes(1500))
                        return [('dlc.drain', dlc.drain())]
                cx.start = go
    elif proc in ('cis_create', 'cis_disconnect'):
        import warnings
        from bumble.device import CigParameters
        warnings.simplefilter('ignore', FutureWarning)
        cx.cis = [[], []]  # every CisLink object the devices were given
        cx.cis_ended = []

        def track(i, link):
            if link not in cx.cis[i]:
                cx.cis[i].append(link)
                link.on('disconnection', lambda *a: cx.cis_ended.append(link))

        def on_req(link):
            track(1, link)
            cx.extra_tasks.append(('accept_cis_request', sim.loop.create_task(d1.accept_cis_request(link))))
        d1.on('cis_request', on_req)
        d0.on('cis_establishment', lambda link: track(0, link))  # in the event itself: a task woken by it may run after the link has ended
        handles = sim.must(d0.setup_cig(CigParameters(cig_id=1, cis_parameters=[CigParameters.CisParameters(cis_id=2)], sdu_interval_c_to_p=0, sdu_interval_p_to_c=0)), 'cig')

        async def create():
            links = await d0.create_cis([(handles[0], c0)])
            for l in links:
                track(0, l)
            return links
        if proc == 'cis_create':
            cx.start = lambda: [('create_cis', create())]
        else:
            links = sim.must(create(), 'create_cis')
            sim.loop.settle(vt_budget=1.0)
            if not cx.cis[1]:
                raise HarnessError('no CIS at the peripheral')
            cx.extra_tasks.clear()

            async def link_end(link):
                if link in cx.cis_ended:
                    return
                fut = sim.loop.create_future()
                link.once('disconnection', lambda *a: fut.done() or fut.set_result(None))
                await fut
            cx.start = lambda: [('cis_link.disconnect', links[0].disconnect()), ('await end of CIS (local)', link_end(links[0])), ('await end of CIS (peer)', link_end(cx.cis[1][0]))]
    elif proc in ('sco_setup', 'sco_disconnect'):
        from bumble import hci, hfp
        params = hfp.ESCO_PARAMETERS[hfp.DefaultCodecParameters.ESCO_CVSD_S1].asdict()
        d1.on('sco_request', lambda conn, lt: sim.loop.create_task(d1.send_command(
            hci.HCI_Enhanced_Accept_Synchronous_Connection_Request_Command(bd_addr=conn.peer_address, **params))))
        cx.sco = [[], []]  # every ScoLink object the devices were given
        cx.sco_ended = []
        for i, d in ((0, d0), (1, d1)):
            def got_sco(link, i=i):
                cx.sco[i].append(link)
                link.on('disconnection', lambda *a: cx.sco_ended.append(link))
            d.on('sco_connection', got_sco)

        async def setup():
            await d0.send_command(hci.HCI_Enhanced_Setup_Synchronous_Connection_Command(connection_handle=c0.handle, **params))
        if proc == 'sco_setup':
            cx.start = lambda: [('send_command(setup synchronous connection)', setup())]
        else:
            sim.must(setup(), 'sco setup')
            sim.loop.drive(lambda: bool(cx.sco[0] and cx.sco[1]), 10.0)
            if not (cx.sco[0] and cx.sco[1]):
                raise HarnessError('no SCO link')

            async def link_end(link):
                # what an audio pump does: run until the link reports its end
                if link in cx.sco_ended:
                    return
                fut = sim.loop.create_future()
                link.once('disconnection', lambda *a: fut.done() or fut.set_result(None))
                await fut
            cx.start = lambda: [('sco_link.disconnect', cx.sco[0][0].disconnect()), ('await end of SCO link (local)', link_end(cx.sco[0][0])),
                                ('await end of SCO link (peer)', link_end(cx.sco[1][0]))]
    elif proc == 'sdp_query':
        from bumble import core, sdp
        d1.sdp_service_records = {0x10001 + i: [sdp.ServiceAttribute(4, sdp.DataElement.sequence([sdp.DataElement.uuid(core.UUID('1101'))])),
                                                 sdp.ServiceAttribute(0x100, sdp.DataElement.text_string(b'x' * 80))] for i in range(6)}
        cl = sdp.Client(c0, mtu=48)
        sim.must(cl.connect(), 'sdp connect')
        cx.start = lambda: [('sdp.search_attributes', cl.search_attributes([core.UUID('1101')], [(0, 0xFFFF)]))]
    elif proc == 'avdtp_discover':
        from bumble import a2dp, avdtp
        from props.c19 import _codec
        listener = avdtp.Listener.for_device(d1)
        listener.on('connection', lambda server: server.add_sink(_codec(a2dp, avdtp, False)))
        client = sim.must(avdtp.Protocol.connect(c0), 'avdtp')
        sim.loop.settle()
        cx.start = lambda: [('avdtp.discover_remote_endpoints', client.discover_remote_endpoints())]
    else:
        raise HarnessError(f'unknown procedure {proc}')
    sim.loop.settle(vt_budget=2.0)
    return cx


FAMILY = {'gatt_read': 'gatt', 'gatt_long_read': 'gatt', 'gatt_write': 'gatt', 'gatt_discover_services': 'gatt', 'gatt_discover_all': 'gatt',
          'gatt_subscribe': 'gatt-subscribe', 'gatt_indicate': 'gatt-indicate', 'pair': 'pair', 'coc_connect': 'coc', 'coc_disconnect': 'coc', 'coc_write_drain': 'coc',
          'connect_le_pending': 'connect', 'disconnect_pending': 'disconnect', 'hci_command': 'hci', 'classic_connect': 'classic-l2cap',
          'classic_disconnect': 'classic-l2cap', 'ertm_transfer': 'classic-l2cap', 'rfcomm_start': 'rfcomm', 'rfcomm_open_dlc': 'rfcomm', 'rfcomm_transfer': 'rfcomm',
          'sdp_query': 'sdp', 'avdtp_discover': 'avdtp', 'sco_setup': 'sco', 'sco_disconnect': 'sco', 'cis_create': 'cis', 'cis_disconnect': 'cis', 'rfcomm_shutdown_drain': 'rfcomm', 'eatt_subscribe': 'eatt', 'eatt_bearer_close': 'eatt', 'ecbfc_connect': 'coc', 'eatt_connect': 'eatt', 'encrypt': 'pair', 'gatt_notify_then_read': 'gatt',
          'remote_features': 'hci', 'classic_remote_features': 'hci', 'classic_connect_pending': 'connect', 'classic_remote_name': 'hci', 
          'update_parameters_l2cap': 'le-signalling'}


def _fclass(fault):
    return 'transport-loss' if fault.startswith('transport_loss') else ('power-off' if fault.startswith('power_off') else 'disconnection')


def _air(world):
    return world[0].link_in.delivered + world[1].link_in.delivered


def case_is_classic(cx):
    return cx.classic


def _lose_link(sim, ctrl, handles):
    """The virtual controller `ctrl` reports a supervision timeout for its connections (all of them, or the given handles)."""
    for conn in list(ctrl.le_connections.values()):
        if handles is None or conn.handle in handles:
            sim.call(ctrl.on_le_disconnected, conn, 0x08)
    for addr, conn in list(ctrl.classic_connections.items()):
        if handles is None or conn.handle in handles:
            sim.call(ctrl.on_classic_disconnected, addr, 0x08)


def _lose_transport(sim, cx, nd, inside_loop):
    """Report the loss the way a transport does: through its source object. In some cases the application had awaited the source's
    `terminated` future under a timeout that expired (which cancels that future) before the loss happens."""
    from bumble.transport.common import BaseSource

    def go():
        src = BaseSource()
        src.set_packet_sink(nd.host)
        if cx.case.get('terminated_given_up'):
            src.terminated.cancel()
            sim.probe('source_terminated_future_cancelled_before_the_loss')
        src.on_transport_lost()
    if inside_loop:
        go()
    else:
        sim.call(go)


def _transport_loss_now(sim, cx, side):
    """Transport loss from INSIDE the loop (called in the delivery of an HCI packet): same effect as _fire's transport loss."""
    world = cx.world
    nd = world[side]
    nd.h2c.closed = True
    nd.c2h.closed = True
    lost_addrs = {str(nd.controller.public_address), str(nd.controller.random_address)}
    try:
        _lose_transport(sim, cx, nd, True)
    finally:
        for k, other in enumerate(world.nodes):
            if k == side:
                continue
            oc = other.controller
            for conn in list(oc.le_connections.values()):
                if str(conn.peer_address) in lost_addrs:
                    oc.on_le_disconnected(conn, 0x08)
            for addr, conn in list(oc.classic_connections.items()):
                if str(conn.peer_address) in lost_addrs and conn.handle != 0:
                    oc.on_classic_disconnected(addr, 0x08)


def _fire(sim, cx, kind):
    """Inject the fault. Returns set of node indices whose controller became unreachable."""
    world = cx.world
    ini = getattr(cx, 'initiator', 0)
    sim.fault(kind)
    unreachable = set()
    conns = [cx.c0, cx.c1]
    if kind in ('local_disconnect', 'remote_disconnect'):
        side = ini if kind == 'local_disconnect' else 1 - ini
        c = conns[side]
        if c is None:
            # no connection yet (pending connect): the only thing to drop is the attempt itself
            addr = world[1].controller.public_address if case_is_classic(cx) else None
            cx.extra_tasks.append(('cancel_connection', sim.loop.create_task(world[0].device.cancel_connection(addr))))
        else:
            cx.extra_tasks.append(('connection.disconnect', sim.loop.create_task(c.disconnect())))
    elif kind == 'link_loss_both':
        for i in (0, 1):
            if conns[i] is not None:
                _lose_link(sim, world[i].controller, {conns[i].handle})
            else:
                _lose_link(sim, world[i].controller, None if len(world.nodes) == 2 else set())
    elif kind.startswith('power_off'):
        # Device.power_off(): the host state is flushed (Host.flush) while the transport stays up; the controller is not told,
        # so it is not consulted afterwards, and the peers' links to this node time out
        side = ini if kind == 'power_off_initiator' else 1 - ini
        nd = world[side]
        t = sim.loop.create_task(nd.device.power_off())
        cx.extra_tasks.append(('power_off', t))

        def off(_t, nd=nd):  # a device that is off hears nothing more from its controller
            nd.h2c.closed = True
            nd.c2h.closed = True
        t.add_done_callback(off)
        unreachable.add(side)
        lost_addrs = {str(nd.controller.public_address), str(nd.controller.random_address)}
        for k, other in enumerate(world.nodes):
            if k == side:
                continue
            oc = other.controller
            hs = {c.handle for c in list(oc.le_connections.values()) + list(oc.classic_connections.values()) if str(c.peer_address) in lost_addrs}
            _lose_link(sim, oc, hs)
    else:
        side = ini if kind == 'transport_loss_initiator' else 1 - ini
        nd = world[side]
        nd.h2c.closed = True
        nd.c2h.closed = True
        _lose_transport(sim, cx, nd, False)
        unreachable.add(side)
        # the peers' links to the node that lost its host eventually time out
        lost_addrs = {str(nd.controller.public_address), str(nd.controller.random_address)}
        for k, other in enumerate(world.nodes):
            if k == side:
                continue
            oc = other.controller
            hs = {c.handle for c in list(oc.le_connections.values()) + list(oc.classic_connections.values()) if str(c.peer_address) in lost_addrs}
            _lose_link(sim, oc, hs)
    return unreachable


def _one(case, k):
    """One execution: the procedure with the fault fired after air message k (k=None: fault-free dry run)."""
    sim = Sim(case['seed'], case.get('profile', 'zero'), slow_node='N1')
    try:
        cx = _build(sim, case)
        world = cx.world
        base = _air(world)
        hci_mode = case.get('boundary') == 'hci' and case['fault'].startswith('transport_loss')
        ini = getattr(cx, 'initiator', 0)
        lost_side = ini if case['fault'] == 'transport_loss_initiator' else 1 - ini
        hch = world[lost_side].c2h
        hbase = hch.delivered
        started = [(name, sim.loop.create_task(coro)) for name, coro in cx.start()]
        tasks = [t for _, t in started]
        if k is None:
            st = sim.loop.drive(lambda: all(t.done() for t in tasks), vt_budget=60.0, step_budget=500_000)
            sim.loop.settle(vt_budget=2.0)
            n = (hch.delivered - hbase) if hci_mode else (_air(world) - base)
            ok = st == 'done' and all(t.exception() is None for t in tasks if not t.cancelled())
            return {'n': n, 'ok': ok, 'violations': [], 'in_flight': False, 'why': None if ok else (st, [repr(t.exception()) for t in tasks if t.done() and not t.cancelled() and t.exception()])}
        inline = {}
        if hci_mode and k > 0:
            def hook(item):
                if not inline and hch.delivered - hbase >= k:
                    inline['in_flight'] = not all(t.done() for t in tasks)
                    inline['handles'] = [cx.c0.handle if cx.c0 else None, cx.c1.handle if cx.c1 else None]
                    try:
                        _transport_loss_now(sim, cx, lost_side)
                    except Exception as e:  # what the transport's reader would see
                        inline['exc'] = type(e).__name__
                        sim.probe(f'on_transport_lost_raised:{type(e).__name__}')
            hch.on_delivered = hook
            sim.loop.drive(lambda: bool(inline) or all(t.done() for t in tasks), vt_budget=30.0, step_budget=300_000)
            hch.on_delivered = None
        else:
            sim.loop.drive(lambda: _air(world) - base >= k or all(t.done() for t in tasks), vt_budget=30.0, step_budget=300_000)
        in_flight = inline.get('in_flight', not all(t.done() for t in tasks))
        if cx.c0 is None:
            # pending-connect procedures: the connection exists from some k on
            by = {id(cx.by0), id(cx.by2)}
            cx.c0 = next((c for c in world[0].device.connections.values() if id(c) not in by), None)
            cx.c1 = next((c for c in world[1].device.connections.values() if id(c) not in by), None)
        handles = [cx.c0.handle if cx.c0 else None, cx.c1.handle if cx.c1 else None]
        if case.get('stall') and not case['fault'].startswith('transport_loss'):
            world[case['stall'][0]].c2h.stall(case['stall'][1])
            sim.fault('host_stalled_during_fault')
        if inline:
            unreachable = {lost_side}
            handles = inline['handles']
            sim.fault(case['fault'])
            sim.fault('transport_lost_right_after_an_hci_packet')
        else:
            unreachable = _fire(sim, cx, case['fault'])
        # quiescence, then up to 60 virtual seconds so that protocol timeouts may fire
        everything = tasks + [t for _, t in cx.extra_tasks]
        sim.loop.drive(lambda: all(t.done() for t in everything), vt_budget=60.0, step_budget=600_000)
        sim.loop.settle(vt_budget=2.0)
        if sim.loop.time() < 1.0:
            sim.loop.advance(1.0)
        proc, fault = case['proc'], case['fault']
        if not getattr(cx, 'observer_only', False):
            for name, t in started + cx.extra_tasks:
                if not t.done():
                    sim.violation_once(f'hang:{name}', f'waiter-left-hanging:{name}:{_fclass(fault)}:at={innermost_bumble_frame(t)}',
                                       f'{name} still pending 60 s after {fault} at air message {k}: {describe_task(t)}')
                    t.cancel()
        else:
            for name, t in cx.extra_tasks:
                if not t.done():
                    sim.violation_once(f'hang:{name}', f'waiter-left-hanging:{name}:{_fclass(fault)}:at={innermost_bumble_frame(t)}', describe_task(t))
                    t.cancel()
            for _, t in started:
                t.cancel()
        _check_tables(sim, cx, case, handles, unreachable)
        if cx.by0 is not None and not unreachable and world[0].device.connections.get(cx.by0.handle) is cx.by0:
            _use_bystander(sim, cx, case)
        return {'n': 0, 'ok': True, 'violations': list(sim.violations), 'in_flight': in_flight, 'vt': sim.loop.time(), 'steps': sim.loop.steps,
                'probes': dict(sim.probes), 'digest': sim.trace.digest}
    finally:
        sim.close()


def _use_bystander(sim, cx, case):
    """The connection nobody touched still works."""
    from bumble.device import Peer

    fc = _fclass(case['fault'])
    if case['proc'] in CLASSIC_PROCS:
        from bumble import core, sdp

        async def go():
            cl = sdp.Client(cx.by0)
            await cl.connect()
            r = await cl.search_services([core.UUID('1101')])
            await cl.disconnect()
            return r
        want = lambda r: r == []
    else:
        async def go():
            return [str(s.uuid) for s in await Peer(cx.by0).discover_services()]
        want = lambda r: any('F3B0' in u.upper() for u in r)
    st, t = sim.run(go(), 40.0)
    if st != 'done' or t.cancelled() or t.exception() is not None or not want(t.result()):
        why = st if st != 'done' else ('cancelled' if t.cancelled() else (t.exception() or t.result()))
        sim.violation_once('bystander-use', f'unrelated-connection-unusable-afterwards:{fc}', f'{why!r}')
        if not t.done():
            t.cancel()
    sim.probe('bystander_connection_used_after_fault')


def _check_tables(sim, cx, case, handles, unreachable):
    world = cx.world
    fam, fc = FAMILY[case['proc']], _fclass(case['fault'])
    sets = []
    for i, nd in enumerate(world.nodes):
        hs = set(nd.host.connections.keys())
        ds = set(nd.device.connections.keys())
        if i in unreachable:
            # the controller behind a lost transport cannot be consulted; host and device still have to agree
            if hs != ds:
                sim.violation_once('tables-hd', f'connection-tables-disagree:host-vs-device:{fc}', f'N{i}: host {sorted(hs)}, device {sorted(ds)}')
            continue
        # handle 0 is the controller's placeholder for a page in progress, not a connection (handles are allocated from 1)
        cs = {c.handle for c in list(nd.controller.le_connections.values()) + list(nd.controller.classic_connections.values()) if c.handle != 0}
        sets.append((i, hs, ds, cs))
        if hs != ds:
            sim.violation_once('tables-hd', f'connection-tables-disagree:host-vs-device:{fc}', f'N{i}: host {sorted(hs)}, device {sorted(ds)}')
        if hs != cs:
            sim.violation_once('tables-hc', f'connection-tables-disagree:host-vs-controller:{fc}', f'N{i}: host {sorted(hs)}, controller {sorted(cs)}')
    # synchronous / isochronous links ride on an ACL connection: they are listed alike on every layer, and none outlives its ACL
    for i, nd in enumerate(world.nodes):
        for kind in ('sco_links', 'cis_links'):
            # (the device also lists a CIS that is still being established; the host lists established ones only)
            hs, ds = set(getattr(nd.host, kind)), {h for h, l in getattr(nd.device, kind).items() if getattr(getattr(l, 'state', None), 'name', 'ESTABLISHED') == 'ESTABLISHED'}
            if hs != ds:
                sim.violation_once(f'tables-hd:{kind}', f'connection-tables-disagree:host-vs-device:{kind}:{fc}', f'N{i}: host {sorted(hs)}, device {sorted(ds)}')
            for h, link in list(getattr(nd.device, kind).items()):
                acl = getattr(link, 'acl_connection', None)
                if acl is not None and nd.device.connections.get(acl.handle) is not acl:
                    sim.violation_once(f'orphan:{kind}', f'stale-state:device.{kind}:{fam}:{fc}', f'N{i}: link {h:#x} is still listed although its ACL connection {acl.handle:#x} is gone')
            if i not in unreachable and kind == 'sco_links':
                cs2 = {l.handle for l in nd.controller.sco_links.values()}
                if hs != cs2:
                    sim.violation_once('tables-hc:sco', f'connection-tables-disagree:host-vs-controller:sco_links:{fc}', f'N{i}: host {sorted(hs)}, controller {sorted(cs2)}')
    for i, links in enumerate(getattr(cx, 'sco', [])):
        for link in links:
            if world[i].device.sco_links.get(link.handle) is not link and link not in cx.sco_ended:
                sim.violation_once('sco-silent', f'link-dropped-without-disconnection-event:sco:{fc}', f'N{i}: SCO link {link.handle:#x} is no longer listed but never reported its disconnection')
    for i, links in enumerate(getattr(cx, 'cis', [])):
        for link in links:
            if world[i].device.cis_links.get(link.handle) is not link and link not in cx.cis_ended and link.state.name == 'ESTABLISHED':
                sim.violation_once('cis-silent', f'link-dropped-without-disconnection-event:cis:{fc}', f'N{i}: CIS {link.handle:#x} is no longer listed but never reported its disconnection')
    # an RFCOMM channel does not outlive the session that carried it
    if getattr(cx, 'dlcs', None) and any(c is None or world[i].device.connections.get(c.handle) is not c for i, c in ((0, cx.c0), (1, cx.c1))):
        for i, x in enumerate(cx.dlcs):
            if x not in cx.dlc_closed:
                sim.violation_once('dlc-open', f'stale-state:rfcomm.dlc-never-closed:{fc}', f'N{i}: DLC {x.dlci} in state {x.state.name} never reported close although the connection is gone')
    # both ends of every link agree on whether it is alive
    reach = {i: cs for i, _, _, cs in sets}
    for (a, ca), (b, cb), label in ((0, cx.c0), (1, cx.c1), 'procedure-link'), ((0, cx.by0), (2, cx.by2), 'bystander-link'):
        if ca is None or cb is None or a not in reach or b not in reach:
            continue
        la, lb = ca.handle in reach[a], cb.handle in reach[b]
        if la != lb:
            sim.violation_once(f'pair:{label}', f'live-connection-on-one-side-only:{label}:{fc}', f'N{a} {"has" if la else "lost"} it, N{b} {"has" if lb else "lost"} it')
    # a disconnection of one link leaves the other one alone
    if cx.by0 is not None and not unreachable:
        for i, c in ((0, cx.by0), (2, cx.by2)):
            if world[i].device.connections.get(c.handle) is not c:
                sim.violation_once('bystander', f'unrelated-connection-torn-down:{fc}', f'N{i} lost its connection {c.handle:#x}, which nobody disconnected')
    # per-connection state of the dead connection must be gone
    for i, nd in enumerate(world.nodes[:2]):
        conn = [cx.c0, cx.c1][i]
        h = handles[i]
        if conn is None or h is None or nd.device.connections.get(h) is conn:
            continue
        dev = nd.device
        gs = dev.gatt_server

        def mine(bearer):
            return bearer is conn or getattr(bearer, 'connection', None) is conn
        if any(mine(b) and any(v != b'\x00\x00' for v in d.values()) for b, d in list(gs.subscribers.items())):
            sim.violation_once('stale:subscribers', f'stale-state:gatt_server.subscribers:{fam}:{fc}', f'N{i} still holds a subscription of the dead connection')
        if any(mine(b) and f is not None and not f.done() for b, f in list(gs.pending_confirmations.items())):
            sim.violation_once('stale:pending_confirmations', f'stale-state:gatt_server.pending_confirmations:{fam}:{fc}', f'N{i}: indication of the dead connection still awaits its confirmation')
        if any(mine(b) and sem.locked() for b, sem in list(gs.indication_semaphores.items())):
            sim.violation_once('stale:indication_semaphores', f'stale-state:gatt_server.indication_semaphores:{fam}:{fc}', f'N{i}: indication slot of the dead connection still taken')
        if h in getattr(dev.smp_manager, 'sessions', {}):
            sim.violation_once('stale:smp', f'stale-state:smp_manager.sessions:{fam}:{fc}', f'N{i}: session for dead handle {h:#x}')
        mgr = dev.l2cap_channel_manager
        for name in ('channels', 'le_coc_channels', 'identifiers', 'pending_credit_based_connections'):
            tbl = getattr(mgr, name, None)
            if tbl is not None and tbl.get(h):
                sim.violation_once(f'stale:{name}', f'stale-state:l2cap.{name}:{fam}:{fc}', f'N{i}: {name}[{h:#x}] = {tbl.get(h)}')
        # requests in flight that are kept per manager, not per connection: none can be pending now (nothing is in flight at quiescence)
        pend = getattr(mgr, 'connection_parameters_update_response', None)
        if pend is not None:
            sim.violation_once('stale:param-update', f'stale-state:l2cap.connection_parameters_update_response:{fam}:{fc}', f'N{i}: the request of the dead connection is still registered ({"done" if pend.done() else "pending"}): the next update will be refused')
        if any(key[0] == h for key in getattr(mgr, 'le_coc_requests', {})):
            sim.violation_once('stale:le_coc_requests', f'stale-state:l2cap.le_coc_requests:{fam}:{fc}', f'N{i}')
        for qn in ('acl_packet_queue', 'le_acl_packet_queue'):
            q = getattr(nd.host, qn, None)
            if q is None:
                continue
            st = q._connection_state.get(h)
            if any(ph == h for _, ph in q._packets) or (st is not None and (st.in_flight or st.queued)):
                sim.violation_once('stale:queue', f'stale-state:data-packet-queue:{fam}:{fc}', f'N{i}: {qn} still holds/accounts packets for dead handle {h:#x}')
        cl = getattr(conn, 'gatt_client', None)
        if cl is not None and getattr(cl, 'pending_response', None) is not None and not cl.pending_response.done():
            sim.violation_once('stale:gattc', f'stale-state:gatt_client.pending_response:{fam}:{fc}', f'N{i}')


def run_teardown(case):
    dry = _one(case, None)
    violations = []
    evaluations = 1
    probes = {}
    faults = {}
    vt = 0.0
    steps = 0
    if not dry['ok']:
        raise HarnessError(f'dry run of {case["proc"]} failed: {dry["why"]}')
    n = min(dry['n'], case['max_k'])
    in_flight_hits = 0
    digests = []
    for k in range(0, n + 1):
        r = _one(case, k)
        evaluations += 1
        vt += r.get('vt', 0.0)
        steps += r.get('steps', 0)
        faults[case['fault']] = faults.get(case['fault'], 0) + 1
        if r['in_flight']:
            in_flight_hits += 1
        for pk, pv in r.get('probes', {}).items():
            probes[pk] = probes.get(pk, 0) + pv
        digests.append(r.get('digest', ''))
        for sig, msg in r['violations']:
            if not any(s == sig for s, _ in violations):
                violations.append((sig, f'{msg} [k={k} of {n}]'))
    probes['fault_hit_operation_in_flight'] = in_flight_hits
    probes['air_messages_in_procedure'] = n
    import hashlib
    shape = hashlib.sha256(repr((case['proc'], case['fault'], case['profile'], n)).encode()).hexdigest()[:16]
    return {'violations': violations, 'probes': probes, 'faults': faults, 'digest': hashlib.sha256(repr(digests).encode()).hexdigest()[:16] + str(len(violations)), 'shape': shape, 'vt': vt, 'steps': steps,
            'nontrivial': in_flight_hits > 0, 'evaluations': evaluations, 'distinct_extra': n + 1}


# ====================================================================================== handle re-use right after a disconnection
async def _await(arm, loop):
    return await arm(loop.create_future())


def gen_reuse(rng, tier, seed):
    return {'profile': rng.choice(['burst', 'burst', 'burst-radio', 'zero', 'lan']), 'adv_delay': rng.choice([0.0, 0.0, 0.001, 0.004]),
            'disc_delay': rng.choice([0.0, 0.0, 0.001]), 'indicate': rng.random() < 0.5, 'who': rng.choice(['client', 'client', 'server']),
            'stall': rng.random() < 0.8, 'stall_s': rng.choice([0.05, 0.2, 0.5]), 'stale_op': rng.choice([None, 'encrypt', 'update_parameters', 'features', 'waiter'])}


def run_reuse(case):
    """A client writes a CCCD and its connection ends at once; a new connection (another peer) is given the same handle while the
    write is still being processed. Nothing of the old connection may come back to life under the new one."""
    from bumble import gatt
    from bumble.device import Peer

    sim = Sim(case['seed'], case.get('profile', 'burst'), slow_node='N1')
    try:
        world = World(sim, 3)
        srv = world[1].device
        P = gatt.Characteristic.Properties
        ch = gatt.Characteristic('F4C1', P.READ | P.NOTIFY | P.INDICATE, gatt.Characteristic.READABLE, b'v0')
        srv.add_service(gatt.Service('F3C0', [ch]))
        world.power_on()
        # the server device is the central of both links: its pending connection to N2 completes as soon as N2 advertises
        cs, cc = world.connect_le(1, 0)
        old_handle = cs.handle
        peer = Peer(cc)
        sim.must(peer.discover_all(), 'discover')
        proxy = next(c for s_ in peer.services for c in s_.characteristics if c.uuid == ch.uuid)
        got2 = []
        world[2].device.l2cap_channel_manager.register_fixed_channel(4, lambda h, pdu: got2.append(bytes(pdu)))
        pend = sim.loop.create_task(srv.connect(world[2].device.random_address, timeout=20.0))
        sim.loop.settle(vt_budget=1.0)

        async def client_side():
            # the CCCD write itself (subscribe() may first look for the descriptor)
            t = asyncio.ensure_future(peer.gatt_client.write_value(ch.end_group_handle, b'\x02\x00' if case['indicate'] else b'\x01\x00', with_response=True))
            if case['disc_delay']:
                await asyncio.sleep(case['disc_delay'])
            else:
                await asyncio.sleep(0)
            try:
                await (cc if case['who'] == 'client' else cs).disconnect()
            except Exception:
                pass
            try:
                await t
            except BaseException:
                pass

        async def newcomer():
            if case['adv_delay']:
                await asyncio.sleep(case['adv_delay'])
            await world[2].device.start_advertising(advertising_interval_min=20.0, auto_restart=False)

        sim.fault('disconnect_then_handle_reused')
        if case.get('stall', True):
            # the server's host is not reading its transport for a while: the write, the disconnection and the new connection are
            # all waiting for it when it resumes
            world[1].c2h.stall(case.get('stall_s', 0.2))
            sim.fault('server_host_stalled')
        t1 = sim.loop.create_task(client_side())
        t2 = sim.loop.create_task(newcomer())
        sim.loop.drive(lambda: t1.done() and t2.done() and pend.done(), vt_budget=30.0, step_budget=400_000)
        sim.loop.settle(vt_budget=2.0)
        if not pend.done() or pend.cancelled() or pend.exception() is not None:
            return result(sim, nontrivial=False)
        new = pend.result()
        reused = new.handle == old_handle
        if reused:
            sim.probe('new_connection_got_the_old_handle')
        gs = srv.gatt_server
        stale = [b for b in gs.subscribers if (b is cs or getattr(b, 'connection', None) is cs) and any(v != b'\x00\x00' for v in gs.subscribers[b].values())]
        if stale and srv.connections.get(old_handle) is not cs:
            sim.violation_once('stale:subscribers', f'stale-state:gatt_server.subscribers:after-handle-reuse={int(reused)}', 'the subscription of the closed connection is back in Server.subscribers')
        got2.clear()
        st, t = sim.run(gs.notify_subscribers(ch, b'news'), 40.0)
        st, t = sim.run(gs.indicate_subscribers(ch, b'news'), 40.0)
        sim.loop.settle(vt_budget=2.0)
        if any(p[:1] in (b'\x1b', b'\x1d') for p in got2):
            sim.violation_once('cross', f'notification-to-a-peer-that-never-subscribed:after-handle-reuse={int(reused)}', f'N2 received {[p.hex() for p in got2][:2]}')
        # an application that still holds the OLD connection object starts something on it: the object knows it is disconnected,
        # whatever the handle now names, so the call ends at once with an error or cancellation
        stale_op = case.get('stale_op')
        if stale_op and srv.connections.get(old_handle) is not cs:
            coro = {'encrypt': lambda: cs.encrypt(), 'update_parameters': lambda: cs.update_parameters(30.0, 50.0, 0, 4000.0),
                    'features': lambda: cs.get_remote_le_features(), 'waiter': lambda: _await(cs.cancel_on_disconnection, sim.loop)}[stale_op]()
            st, t = sim.run(coro, 40.0)
            sim.probe('operation_started_on_the_closed_connection_object')
            if st != 'done':
                sim.violation_once('stale-op', f'waiter-left-hanging:{stale_op}:on-closed-connection-object:handle-reused={int(reused)}', describe_task(t))
                t.cancel()
            elif not t.cancelled() and t.exception() is None and stale_op != 'features':
                sim.violation_once('stale-op-ok', f'operation-on-closed-connection-succeeded:{stale_op}:handle-reused={int(reused)}', 'it can only have acted on the new connection')
        sim.trace.shape(case['who'], reused, case['indicate'], case['profile'], case.get('stall'), case.get('stall_s'), case['adv_delay'], case['disc_delay'])
        return result(sim, nontrivial=reused)
    finally:
        sim.close()


SCENARIOS = {'teardown': (gen_teardown, run_teardown), 'reuse': (gen_reuse, run_reuse)}
