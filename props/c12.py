"""C12 — a GATT client sees exactly the server's database, values and notifications; discovery terminates.

Real: gatt_client.Client / Peer, gatt_server.Server, proxies, subscriptions, EATT, everything below.
Stub: for the termination clause only, a RawPeer playing a GATT server from a generated script.
"""
from __future__ import annotations

import asyncio

import struct

from bsim import gattdb
from bsim.l2tap import L2capTap
from bsim.rawpeer import RawPeer
from bsim.sim import PROFILE_NAMES, HarnessError, Sim, World, describe_task, result

PROPERTY = 'C12'
PLAN = {
    'quick': [('db', 900), ('adversarial', 1500)],
    'thorough': [('db', 30000), ('adversarial', 60000)],
}
WALL_CAP = {'quick': 150, 'thorough': 1500}
EVIDENCE = {
    'level': 'exploration',
    'rule': ('db: generated database (services, included services, characteristics, descriptors, mixed 16/128-bit UUIDs inside one '
             'range, value lengths around k*(MTU-1) and MTU-3), client and server MTU preferences 23..517, one or two clients and '
             'optionally an enhanced bearer; full discovery through every discovery API, reads (long reads), writes, subscription '
             'sets and notify/indicate pushes through all four server APIs with values of MTU-4..MTU+10 bytes. adversarial: a '
             'scripted server answers discovery requests with empty lists, repeated / decreasing handles, handle 0xFFFF, responses '
             'of the wrong type and unexpected error codes. Non-trivial: the database needed more than one response PDU for some '
             'discovery step (db) / the script produced at least one malformed answer (adversarial); distinct = distinct database '
             'shape digest + MTU pair + subscription pattern, or distinct script.'),
    'real': ['bumble.gatt_client.Client', 'bumble.device.Peer', 'bumble.gatt_server.Server', 'bumble.gatt', 'bumble.att', 'bumble.l2cap (EATT)'],
    'stub': ['adversarial scenario: RawPeer scripted GATT server'],
    'assumptions': ['expected layout comes from an independent builder anchored at the first generated service handle',
                    'subscriber callback order within one notification is not judged',
                    'a discovery still advancing after 3000 requests is inconclusive; one that issues the identical request with the identical answer for the fourth time is non-terminating'],
}

EATT_PSM = 0x27
P_NOTIFY, P_INDICATE = 0x10, 0x20


def gen_db(rng, tier, seed):
    cm = rng.choice([23, 23, 24, 50, 100, 185, 517])
    sm = rng.choice([23, 24, 50, 100, 185, 517])
    mtu = max(23, min(cm, sm))
    db = gattdb.gen_db(rng, max_services=4, max_chars=4, mtu_hint=mtu, callbacks=True, uuid32=True,
                       value_lens=[0, 1, mtu - 4, mtu - 3, mtu - 2, mtu - 1, mtu, 2 * (mtu - 1), 2 * (mtu - 1) + 1, 3 * (mtu - 1), 100, 512])
    nclients = rng.choice([1, 1, 2])
    eatt = rng.random() < 0.3
    subs = []
    pushes = []
    for _ in range(rng.randint(0, 6)):
        # bearer index, char pick, prefer_notify, how: through the Client, or through the characteristic proxy - once, or the same
        # callback twice - possibly taken back again before anything is pushed
        subs.append([rng.randrange(3), rng.randrange(100), rng.random() < 0.5, rng.choice(['client', 'client', 'proxy', 'proxy_twice', 'proxy_unsub', 'proxy_twice_unsub'])])
    for _ in range(rng.randint(0, 8)):
        pushes.append([rng.choice(['notify_subscribers', 'indicate_subscribers', 'notify_subscriber', 'indicate_subscriber', 'indicate_subscriber_bearer']),
                       rng.randrange(100), rng.choice([-999, -4, -3, -2, 0, 1, 10]), rng.randrange(3), rng.choice([-1, -1, -1, 0, 1, 2])])  # -999: an explicit empty value
    if rng.random() < 0.25:
        # fan-out: several bearers subscribed for indications of one characteristic, one of them possibly never confirming
        nclients = 2
        pick = rng.randrange(100)
        subs = [[0, pick, False], [1, pick, False], [2, pick, False]] + subs
        pushes.insert(rng.randrange(len(pushes) + 1), ['indicate_subscribers', pick, 0, 0, rng.choice([-1, 0, 1, 2])])
    if len(db['services']) >= 2 and rng.random() < 0.2:
        # two instances of one service (the same UUID twice, as two batteries would be): the client must keep both apart
        i, j = rng.sample(range(len(db['services'])), 2)
        db['services'][j]['uuid'] = db['services'][i]['uuid']
        db['services'][j]['primary'] = db['services'][i]['primary'] = True
    return {'db': db, 'client_mtu': cm, 'server_mtu': sm, 'exchange': rng.random() < 0.8, 'nclients': nclients, 'eatt': eatt,
            'eatt_mtu': [rng.choice([64, 100, 247]), rng.choice([64, 100, 247])], 'subs': subs, 'pushes': pushes,
            'writes': rng.randint(0, 4), 'profile': rng.choice(PROFILE_NAMES), '_lists': ['subs', 'pushes'], 'passerby': rng.random() < 0.3,
            # the application notifies the current state as soon as somebody subscribes; the first long read races the MTU exchange
            'push_on_subscribe': rng.random() < 0.3, 'mtu_race': rng.random() < 0.3}


def run_db(case):
    from bumble import att, gatt, gatt_client, l2cap
    from bumble.device import Peer

    sim = Sim(case['seed'], case.get('profile', 'zero'), slow_node='N1')
    try:
        n = 1 + case['nclients']
        world = World(sim, n + (1 if case.get('passerby') else 0))
        srv_node = world[1]
        srv = srv_node.device
        before = len(srv.gatt_server.attributes)
        built = gattdb.build(srv, case['db'])
        srv.gatt_server.max_mtu = case['server_mtu']
        if case['eatt']:
            srv.gatt_server.register_eatt(l2cap.LeCreditBasedChannelSpec(psm=EATT_PSM, mtu=case['eatt_mtu'][1], mps=64, max_credits=16))
        world.power_on()
        server = srv.gatt_server
        first = built.services[0].handle if built.services else before + 1
        if built.services and first != before + 1:
            sim.violation_once('layout', 'server-layout:first-handle', f'first generated service at {first}, {before} attributes existed')
        layout = gattdb.expected_layout(case['db'], first)
        # the server's own attribute list must agree with the independent layout (so a mistake in add_service is seen)
        _check_server_layout(sim, server, layout, built)

        client_nodes = [0] + ([2] if case['nclients'] == 2 else [])
        bearers = []  # dict(name, client(api), conn_c, conn_s, mtu, kind)
        for ci in client_nodes:
            cc, cs = world.connect_le(ci, 1)
            peer = Peer(cc)
            mtu = 23
            if case['exchange']:
                race = None
                if case.get('mtu_race'):
                    # a long read started while the MTU exchange is in flight must still return the whole value
                    cand = [(layout[si]['chars'][ci]['value_handle'], ch) for (si, ci), ch in built.char_objs.items()
                            if case['db']['services'][si]['chars'][ci]['props'] & 0x02 and len(gattdb.current_value(ch)) > 22]
                    if cand:
                        race = (sim.loop.create_task(peer.gatt_client.read_value(cand[0][0])), cand[0][1])
                        sim.probe('long_read_racing_mtu_exchange')
                st, t = sim.run(peer.request_mtu(case['client_mtu']), 60.0)
                if race is not None:
                    sim.loop.drive(race[0].done, vt_budget=120.0, step_budget=400_000)
                    if not race[0].done():
                        sim.violation_once('read', 'read-hang:racing-mtu-exchange', describe_task(race[0]))
                        race[0].cancel()
                    elif race[0].exception() is not None:
                        sim.violation_once('read', f'read-raised:racing-mtu-exchange:{type(race[0].exception()).__name__}', repr(race[0].exception()))
                    elif bytes(race[0].result()) != gattdb.current_value(race[1]):
                        sim.violation_once('read', 'read-value-mismatch:racing-mtu-exchange', f'read {len(race[0].result())} bytes, value has {len(gattdb.current_value(race[1]))} bytes')
                if st != 'done' or t.exception() is not None:
                    sim.violation_once('mtu', 'mtu-exchange-failed', str(st if st != 'done' else t.exception()))
                    return result(sim, nontrivial=False)
                mtu = max(23, min(case['client_mtu'], case['server_mtu']))
                if t.result() != mtu or cc.att_mtu != mtu or cs.att_mtu != mtu:
                    sim.violation_once('mtu', 'mtu-exchange-result', f'request_mtu returned {t.result()}, client bearer {cc.att_mtu}, server bearer {cs.att_mtu}, expected {mtu}')
            bearers.append({'name': f'fixed{ci}', 'api': peer, 'client': peer.gatt_client, 'cc': cc, 'cs': cs, 'mtu': mtu, 'kind': 'fixed', 'sbearer': cs, 'rx_kinds': []})
        if case['eatt']:
            b0 = bearers[0]
            st, t = sim.run(gatt_client.Client.connect_eatt(b0['cc'], l2cap.LeCreditBasedChannelSpec(psm=EATT_PSM, mtu=case['eatt_mtu'][0], mps=64, max_credits=16)), 60.0)
            if st != 'done' or t.exception() is not None:
                sim.violation_once('eatt', 'eatt-connect-failed', str(st if st != 'done' else t.exception()))
                return result(sim, nontrivial=False)
            ecl = t.result()
            sim.loop.settle()
            schan = [c for c in srv.l2cap_channel_manager.le_coc_channels.get(b0['cs'].handle, {}).values() if c.psm == EATT_PSM]
            if len(schan) != 1:
                raise HarnessError('server EATT channel not found')
            bearers.append({'name': 'eatt0', 'api': ecl, 'client': ecl, 'cc': b0['cc'], 'cs': b0['cs'], 'mtu': min(case['eatt_mtu']), 'kind': 'eatt',
                            'sbearer': schan[0], 'rx_kinds': []})
        # record the kind of every unsolicited PDU each client bearer receives
        for b in bearers:
            cl = b['client']
            orig = cl.on_gatt_pdu

            def spy(pdu, b=b, orig=orig):
                if pdu.op_code in (0x1B, 0x1D):
                    b['rx_kinds'].append((pdu.op_code, pdu.attribute_handle, bytes(pdu.attribute_value)))
                    if pdu.op_code == 0x1D and b.get('mute'):
                        return None  # this subscriber never confirms (the indication is lost in its application)
                return orig(pdu)

            cl.on_gatt_pdu = spy

        # ---------------------------------------------------------------- discovery on the first bearer of each client
        multi_pdu = False
        for b in bearers:
            api = b['api']
            st, t = sim.run(_discover_all(api), 600.0, step_budget=2_000_000)
            if st != 'done':
                sim.violation_once('disc-hang', f'discovery-hang:{b["kind"]}', describe_task(t))
                t.cancel()
                return result(sim, nontrivial=False)
            if t.exception() is not None:
                sim.violation_once('disc-exc', f'discovery-raised:{b["kind"]}:{type(t.exception()).__name__}', repr(t.exception()))
                return result(sim, nontrivial=False)
            services, attrs = t.result()
            _compare_discovery(sim, b, services, attrs, layout, server, case)
        # ---------------------------------------------------------------- reads and writes
        b = bearers[0]
        api = b['api']
        cl = b['client']
        chars = _client_chars(cl)
        for (si, ci), ch in built.char_objs.items():
            c = case['db']['services'][si]['chars'][ci]
            exp = layout[si]['chars'][ci]
            proxy = chars.get(exp['value_handle'])
            if proxy is None:
                continue
            if c['props'] & 0x02:
                st, t = sim.run(proxy.read_value(), 120.0)
                want = gattdb.current_value(ch)
                if st != 'done':
                    sim.violation_once('read', 'read-hang', describe_task(t))
                    t.cancel()
                elif t.exception() is not None:
                    sim.violation_once('read', f'read-raised:{type(t.exception()).__name__}', f'{len(want)}-byte value at MTU {b["mtu"]}: {t.exception()!r}')
                elif bytes(t.result()) != want:
                    got = bytes(t.result())
                    rel = _lenclass(len(want), b['mtu'])
                    sim.violation_once('read', f'read-value-mismatch:len={rel}:{b["kind"]}', f'read {len(got)} bytes, value has {len(want)} bytes (MTU {b["mtu"]})')
                if len(want) > b['mtu'] - 1:
                    sim.probe('long_read')
        wr = 0
        for (si, ci), ch in built.char_objs.items():
            if wr >= case['writes']:
                break
            c = case['db']['services'][si]['chars'][ci]
            exp = layout[si]['chars'][ci]
            proxy = chars.get(exp['value_handle'])
            if proxy is None or not c['props'] & 0x08:
                continue
            wr += 1
            # lengths: small, empty, the most one Write Request can carry, the longest value GATT allows (512) when that fits
            fits = b['mtu'] - 3
            size = [1 + wr * 5, 0, fits, 512, 511, fits - 1][(case['seed'] + wr) % 6]
            size = max(0, min(size, fits, 512))
            if size == 512:
                sim.probe('write_of_the_longest_legal_value')
            newv = bytes((wr * 9 + k) & 0xFF for k in range(size))
            st, t = sim.run(proxy.write_value(newv, with_response=True), 60.0)
            sim.loop.settle()
            if st != 'done' or t.exception() is not None:
                sim.violation_once('write', 'write-failed', str(st if st != 'done' else t.exception()))
            elif gattdb.current_value(ch) != newv:
                sim.violation_once('write', 'write-not-visible-on-server', f'server holds {gattdb.current_value(ch)[:8].hex()}..')
        # ---------------------------------------------------------------- subscriptions and pushes
        sub_chars = [(k, ch) for k, ch in built.char_objs.items() if ch.properties & (P_NOTIFY | P_INDICATE)]
        subscribed = {}  # (bearer index, value handle) -> 'notify'|'indicate'
        fired = {}  # (bearer index, value handle) -> list of values
        if sub_chars:
            hello = {}
            if case.get('push_on_subscribe'):
                for (si, ci), ch in sub_chars:
                    def on_sub(bearer, notify_enabled, indicate_enabled, ch=ch):
                        if notify_enabled:
                            sim.loop.create_task(server.notify_subscriber(bearer, ch, b'hello'))
                    ch.on('subscription', on_sub)
            for bi, pick, prefer, *how in case['subs']:
                how = how[0] if how else 'client'
                bi %= len(bearers)
                b = bearers[bi]
                (si, ci), ch = sub_chars[pick % len(sub_chars)]
                vh = layout[si]['chars'][ci]['value_handle']
                proxy = _client_chars(b['client']).get(vh)
                if proxy is None or (bi, vh) in subscribed:
                    continue
                props = ch.properties
                kind = 'notify' if (props & P_NOTIFY and (prefer or not props & P_INDICATE)) else 'indicate'
                fired[(bi, vh)] = []
                cb = lambda v, key=(bi, vh): fired[key].append(bytes(v))  # noqa: E731

                async def subscribe(proxy=proxy, cb=cb, how=how, b=b, prefer=prefer):
                    if how == 'client':
                        await b['client'].subscribe(proxy, cb, prefer_notify=prefer)
                        return
                    await proxy.subscribe(cb, prefer_notify=prefer)
                    if 'twice' in how:
                        await proxy.subscribe(cb, prefer_notify=prefer)
                    if how.endswith('unsub'):
                        await proxy.unsubscribe(cb)
                st, t = sim.run(subscribe(), 60.0)
                sim.loop.settle()
                if st != 'done' or t.exception() is not None:
                    sim.violation_once('sub', f'subscribe-failed:{b["kind"]}', str(st if st != 'done' else t.exception()))
                    continue
                if how != 'client':
                    sim.probe('subscribed_through_the_characteristic_proxy')
                if how.endswith('unsub'):
                    # taken back: this bearer is not subscribed (what the pushes are judged against)
                    sim.probe('subscription_taken_back_before_the_pushes')
                    continue
                subscribed[(bi, vh)] = kind
                if case.get('push_on_subscribe') and kind == 'notify':
                    sim.loop.settle(vt_budget=2.0)
                    sim.probe('notification_sent_on_subscription')
                    if b'hello'[:b['mtu'] - 3] not in fired[(bi, vh)]:
                        sim.violation_once('sub-hello', f'notification-right-after-subscription-lost:{b["kind"]}', f'{b["name"]}: the server notified as soon as the CCCD was written; the subscriber got {fired[(bi, vh)]}')
            if case.get('passerby'):
                # another client comes and goes before anything is pushed: its disconnection must leave the others' delivery alone
                try:
                    pa, _ps = world.connect_le(n, 1)
                    sim.run(pa.disconnect(), 30.0)
                    sim.loop.settle(vt_budget=2.0)
                    sim.probe('another_client_came_and_went_before_the_pushes')
                except HarnessError:
                    pass
            # wire tap on the server: confirmations seen
            conf = {'n': 0}
            L2capTap(sim, srv_node, lambda d, h, cid, p: conf.__setitem__('n', conf['n'] + 1) if d == 'in' and ((cid == 4 and p[:1] == b'\x1e') or (cid >= 0x40 and p[2:3] == b'\x1e' and len(p) == 3)) else None)
            for push in case['pushes']:
                api_name, pick, dlen, bi = push[:4]
                mute_i = push[4] if len(push) > 4 else -1
                (si, ci), ch = sub_chars[pick % len(sub_chars)]
                vh = layout[si]['chars'][ci]['value_handle']
                bi %= len(bearers)
                tb = bearers[bi]
                value = bytes((pick * 3 + k) & 0xFF for k in range(max(0, tb['mtu'] + dlen))) if dlen != -999 else b''
                for k in fired:
                    fired[k].clear()
                for b_ in bearers:
                    b_['rx_kinds'].clear()
                conf0 = conf['n']
                indicate = api_name.startswith('indicate')
                if api_name == 'notify_subscribers':
                    coro = server.notify_subscribers(ch, value)
                    scope = list(range(len(bearers)))
                elif api_name == 'indicate_subscribers':
                    coro = server.indicate_subscribers(ch, value)
                    scope = list(range(len(bearers)))
                elif api_name == 'notify_subscriber':
                    coro = srv.notify_subscriber(tb['cs'], ch, value)
                    scope = [i for i, x in enumerate(bearers) if x['cs'] is tb['cs']]
                elif api_name == 'indicate_subscriber':
                    coro = srv.indicate_subscriber(tb['cs'], ch, value)
                    scope = [i for i, x in enumerate(bearers) if x['cs'] is tb['cs']]
                else:
                    if tb['kind'] != 'eatt':
                        continue
                    coro = server.indicate_subscriber(tb['sbearer'], ch, value)
                    scope = [bi]
                want_kind = 'indicate' if indicate else 'notify'
                expected = {i for i in scope if subscribed.get((i, vh)) == want_kind}
                muted = None
                if api_name == 'indicate_subscribers' and mute_i >= 0 and len(expected) >= 2:
                    muted = sorted(expected)[mute_i % len(expected)]
                    bearers[muted]['mute'] = True
                    sim.fault('subscriber_never_confirms')
                st, t = sim.run(coro, 90.0)
                if muted is not None:
                    bearers[muted]['mute'] = False
                returned_conf = conf['n'] - conf0
                sim.loop.settle()
                label = f'{api_name}:{"eatt" if any(bearers[i]["kind"] == "eatt" for i in scope) else "fixed"}'
                if st != 'done':
                    sim.violation_once('push-hang', f'push-hang:{api_name}', describe_task(t))
                    t.cancel()
                    continue
                if t.exception() is not None and not (muted is not None and isinstance(t.exception(), (TimeoutError, asyncio.TimeoutError))):
                    sim.violation_once('push-exc', f'push-raised:{api_name}:{type(t.exception()).__name__}', repr(t.exception()))
                    continue
                for i, b_ in enumerate(bearers):
                    got_cb = fired.get((i, vh), [])
                    kinds = [k for (k, h, v) in b_['rx_kinds'] if h == vh]
                    if i in expected:
                        trunc = value[:b_['mtu'] - 3]
                        code = 0x1D if indicate else 0x1B
                        if not kinds:
                            sim.violation_once(f'push-miss:{api_name}', f'push-not-delivered:{api_name}:subscribed={want_kind}:{b_["kind"]}', f'{b_["name"]} subscribed for {want_kind} got nothing')
                        elif kinds != [code]:
                            sim.violation_once(f'push-kind:{api_name}', f'push-wrong-pdu-kind:{api_name}:{b_["kind"]}', f'{b_["name"]} got opcodes {[hex(k) for k in kinds]}, wanted one {code:#x}')
                        elif i == muted:
                            sim.probe('indication_to_a_subscriber_that_never_confirms')
                        elif got_cb != [trunc]:
                            vals = [v for (k, h, v) in b_['rx_kinds'] if h == vh]
                            if vals and vals[0] != trunc:
                                sim.violation_once(f'push-val:{api_name}', f'push-value-not-truncated-to-mtu-3:{api_name}:{b_["kind"]}', f'{len(vals[0])} bytes on the wire, expected {len(trunc)} (MTU {b_["mtu"]})')
                            else:
                                sim.violation_once(f'push-cb:{api_name}', f'push-callback-count:{api_name}:{b_["kind"]}', f'subscriber fired {len(got_cb)} times')
                        else:
                            sim.probe('push_delivered')
                    else:
                        if kinds:
                            sub = subscribed.get((i, vh), 'none')
                            sim.violation_once(f'push-extra:{api_name}', f'push-to-unsubscribed-bearer:{api_name}:subscribed={sub}:{b_["kind"]}', f'{b_["name"]} (subscription: {sub}) received {[hex(k) for k in kinds]}')
                if indicate and expected and returned_conf < len(expected) - (1 if muted is not None else 0):
                    sim.violation_once(f'push-early:{api_name}', f'indicate-returned-before-confirmation:{api_name}', f'{returned_conf} confirmations on the wire when the call returned, {len(expected)} indications sent')
        # ---------------------------------------------------------------- discovery filtered by UUID (last: it replaces the proxies' lists)
        _filtered_discovery(sim, bearers[0], layout, case)
        sim.trace.shape(len(case['db']['services']), case['client_mtu'], case['server_mtu'], case['eatt'], tuple(sorted(subscribed.values())))
        return result(sim, nontrivial=sim.probes['multi_pdu_discovery'] > 0 or sim.probes['long_read'] > 0)
    finally:
        sim.close()


def _lenclass(n, mtu):
    if n < mtu - 1:
        return 'short'
    if n == mtu - 1:
        return 'mtu-1'
    if n % (mtu - 1) == 0:
        return 'k*(mtu-1)'
    return 'long'


async def _discover_all(api):
    """Every discovery API, on a Peer or a Client."""
    client = getattr(api, 'gatt_client', api)
    services = await client.discover_services()
    for s in services:
        await client.discover_included_services(s)
        await client.discover_characteristics([], s)
        for c in s.characteristics:
            await client.discover_descriptors(c)
    attrs = await client.discover_attributes()
    return services, attrs


def _filtered_discovery(sim, b, layout, case):
    """discover_service(uuid) / discover_characteristics([uuid], service) / discover_descriptors on what they return."""
    import random

    from bumble import core

    client = b['client']
    kind = b['kind']
    rnd = random.Random(case['seed'] ^ 0x5EED)
    prim = [s for s in layout if s['primary']]
    if not prim:
        return
    for svc in rnd.sample(prim, min(3, len(prim))):
        suuid = core.UUID.from_bytes(svc['uuid'])
        declared = case['db']['services'][layout.index(svc)]['uuid'] if len(case['db']['services']) == len(layout) else ''
        if len(declared) == 8:
            suuid = core.UUID(declared)  # the application's own, 32-bit form of that UUID
            sim.probe('service_looked_up_by_32_bit_uuid')
        st, t = sim.run(client.discover_service(suuid), 120.0)
        if st != 'done' or t.exception() is not None:
            sim.violation_once('fdisc', f'filtered-discovery:discover_service-failed:{kind}', str(st if st != 'done' else repr(t.exception())))
            continue
        got = [(x.handle, x.end_group_handle) for x in t.result()]
        want = [(x['handle'], x['end']) for x in prim if _u128(x['uuid']) == _u128(svc['uuid'])]
        if got != want:
            sim.violation_once('fdisc-svc', f'filtered-discovery:services-differ:{kind}', f'discover_service gave {got}, the database has {want}')
            continue
        sp = next(x for x in t.result() if x.handle == svc['handle'])
        if not svc['chars']:
            continue
        cw = rnd.choice(svc['chars'])
        cuuid = core.UUID.from_bytes(cw['uuid'])
        st, t = sim.run(client.discover_characteristics([cuuid], sp), 120.0)
        if st != 'done' or t.exception() is not None:
            sim.violation_once('fdisc', f'filtered-discovery:discover_characteristics-failed:{kind}', str(st if st != 'done' else repr(t.exception())))
            continue
        sim.probe('filtered_characteristic_discovery')
        got = [(c.handle, c.end_group_handle, int(c.properties)) for c in t.result()]
        want = [(c['value_handle'], c['end'], c['props']) for c in svc['chars'] if _u128(c['uuid']) == _u128(cw['uuid'])]
        if got != want:
            what = 'handles' if [g[0] for g in got] != [w[0] for w in want] else ('end-handles' if [g[1] for g in got] != [w[1] for w in want] else 'properties')
            sim.violation_once('fdisc-chr', f'filtered-discovery:characteristics-differ:{what}:{kind}', f'discover_characteristics([uuid]) gave {got}, the database has {want}')
            continue
        for cp in t.result():
            exp = next(c for c in svc['chars'] if c['value_handle'] == cp.handle)
            st, t2 = sim.run(client.discover_descriptors(cp), 120.0)
            if st != 'done' or t2.exception() is not None:
                sim.violation_once('fdisc', f'filtered-discovery:discover_descriptors-failed:{kind}', str(st if st != 'done' else repr(t2.exception())))
                continue
            d_got = [d.handle for d in t2.result()]
            d_want = [d['handle'] for d in exp['descs']]
            if d_got != d_want:
                sim.violation_once('fdisc-dsc', f'filtered-discovery:descriptors-differ:{kind}', f'char {cp.handle}: client {d_got}, expected {d_want}')


def _client_chars(client):
    out = {}
    for s in client.services:
        for c in getattr(s, 'characteristics', []):
            out[c.handle] = c
    return out


def _u(u):
    return bytes(u.to_bytes(force_128=True))


def _u128(b: bytes) -> bytes:
    """128-bit little-endian form of a 16/128-bit little-endian UUID."""
    if len(b) == 16:
        return b
    if len(b) == 4:
        return bytes.fromhex('FB349B5F8000008000100000') + b
    return bytes.fromhex('FB349B5F8000008000100000') + b + b'\x00\x00'


def _check_server_layout(sim, server, layout, built):
    for si, svc in enumerate(layout):
        sobj = built.services[si]
        if (sobj.handle, sobj.end_group_handle) != (svc['handle'], svc['end']):
            sim.violation_once('layout', 'server-layout:service-range', f'service {si}: server says {sobj.handle}-{sobj.end_group_handle}, layout says {svc["handle"]}-{svc["end"]}')
        for ci, ch in enumerate(svc['chars']):
            cobj = built.char_objs[(si, ci)]
            if cobj.handle != ch['value_handle'] or cobj.end_group_handle != ch['end']:
                sim.violation_once('layout', 'server-layout:characteristic-range', f'char {si}.{ci}: server value handle/end {cobj.handle}/{cobj.end_group_handle}, layout {ch["value_handle"]}/{ch["end"]}')


def _compare_discovery(sim, b, services, attrs, layout, server, case):
    kind = b['kind']
    # primary services only are discovered by discover_services
    want = []
    for a in server.attributes:
        if type(a).__name__ == 'Service' or type(a).__name__.endswith('Service'):
            if getattr(a, 'primary', True):
                want.append((a.handle, a.end_group_handle, _u128(bytes(a.uuid.to_pdu_bytes()))))
    gen_primary = [(s['handle'], s['end'], _u128(s['uuid'])) for s in layout if s['primary']]
    for g in gen_primary:
        if g not in want:
            sim.violation_once('layout', 'server-layout:generated-service-missing', f'{g[0]}-{g[1]} not in the server list')
    got = [(s.handle, s.end_group_handle, _u128(bytes(s.uuid.to_pdu_bytes()))) for s in services]
    if len(got) > 3:
        sim.probe('multi_pdu_discovery')
    if got != want:
        missing = [w for w in want if w not in got]
        extra = [g for g in got if g not in want]
        what = 'missing' if missing and not extra else ('extra' if extra and not missing else 'different')
        sim.violation_once('disc-svc', f'discovery:services-{what}:{kind}', f'client sees {[(g[0], g[1]) for g in got]}, server has {[(w[0], w[1]) for w in want]}')
        return
    # the client's own service list (what Peer.services, get_services_by_uuid and a discovery without a service argument walk)
    # holds every one of them too
    kept = {(s.handle, s.end_group_handle) for s in getattr(b['client'], 'services', [])}
    lost = [(w[0], w[1]) for w in want if (w[0], w[1]) not in kept]
    if lost:
        sim.violation_once('disc-svc', f'discovery:service-missing-from-the-client-list:{kind}', f'discover_services() returned {len(got)} services, the client keeps {sorted(kept)}; not kept: {lost}')
        return
    by_handle = {s.handle: s for s in services}
    for svc in layout:
        if not svc['primary']:
            continue
        sp = by_handle.get(svc['handle'])
        if sp is None:
            continue
        inc_got = [(i.handle, i.end_group_handle, _u128(bytes(i.uuid.to_pdu_bytes()))) for i in getattr(sp, 'included_services', [])]
        inc_want = [(i['start'], i['end'], _u128(i['uuid'])) for i in svc['includes']]
        if inc_got != inc_want:
            sim.violation_once('disc-inc', f'discovery:included-services-differ:{kind}', f'service {svc["handle"]}: client {[(g[0], g[1]) for g in inc_got]}, expected {[(w[0], w[1]) for w in inc_want]}')
        ch_got = [(c.handle, c.end_group_handle, _u128(bytes(c.uuid.to_pdu_bytes())), int(c.properties)) for c in sp.characteristics]
        ch_want = [(c['value_handle'], c['end'], _u128(c['uuid']), c['props']) for c in svc['chars']]
        if len(ch_want) > 2:
            sim.probe('multi_pdu_discovery')
        if ch_got != ch_want:
            if [g[0] for g in ch_got] != [w[0] for w in ch_want]:
                what = 'handles'
            elif [g[1] for g in ch_got] != [w[1] for w in ch_want]:
                what = 'end-handles'
            elif [g[2] for g in ch_got] != [w[2] for w in ch_want]:
                what = 'uuids'
            else:
                what = 'properties'
            sim.violation_once('disc-chr', f'discovery:characteristics-differ:{what}:{kind}', f'service {svc["handle"]}: client {[(g[0], g[1], g[3]) for g in ch_got]}, expected {[(w[0], w[1], w[3]) for w in ch_want]}')
            continue
        for cp, cw in zip(sp.characteristics, svc['chars']):
            d_got = [(d.handle, _u128(bytes(d.type.to_pdu_bytes()))) for d in cp.descriptors]
            d_want = [(d['handle'], _u128(d['uuid'])) for d in cw['descs']]
            if d_got != d_want:
                sim.violation_once('disc-dsc', f'discovery:descriptors-differ:{kind}', f'char {cw["value_handle"]}: client {[g[0] for g in d_got]}, expected {[w[0] for w in d_want]}')
    a_got = [(a.handle, _u128(bytes(a.type.to_pdu_bytes()))) for a in attrs]
    a_want = [(a.handle, _u128(bytes(a.type.to_pdu_bytes()))) for a in server.attributes]
    if a_got != a_want:
        sim.violation_once('disc-att', f'discovery:attributes-differ:{kind}', f'discover_attributes gave {len(a_got)} entries, server has {len(a_want)}')


# --------------------------------------------------------------------------------------
SCRIPT_KINDS = ['valid', 'valid', 'empty_list', 'repeat_handle', 'decreasing', 'descending_within', 'handle_ffff', 'wrong_type', 'error_other', 'not_found', 'short_entry', 'no_advance', 'fixed_range', 'decl_value_behind']


def gen_adversarial(rng, tier, seed):
    return {'api': rng.choice(['discover_services', 'discover_service', 'discover_included_services', 'discover_characteristics', 'discover_descriptors', 'discover_attributes']),
            'script': ([rng.choice(SCRIPT_KINDS) for _ in range(rng.randint(1, 6))] if rng.random() < 0.5 else
                       # a peer that answers properly for a while and then keeps giving the same odd answer
                       ['valid'] * rng.randint(0, 3) + [rng.choice(SCRIPT_KINDS[2:])] * rng.randint(4, 8)), 'uuid128': rng.random() < 0.3, 'profile': rng.choice(['zero', 'lan'])}


def run_adversarial(case):
    from bumble import core, gatt_client
    from bumble.device import Peer

    sim = Sim(case['seed'], case.get('profile', 'zero'))
    try:
        world = World(sim, 2)
        world.power_on()
        cc, cs = world.connect_le(0, 1)
        raw = RawPeer(sim, world[1])
        state = {'n': 0, 'loop': False, 'long': False}
        seen = {}
        script = case['script']
        ulen = 16 if case['uuid128'] else 2

        def on_att(handle, pdu):
            if not pdu:
                return
            op = pdu[0]
            if op == 0x02:
                raw.send(handle, 4, struct.pack('<BH', 0x03, 23))
                return
            if op not in (0x04, 0x06, 0x08, 0x10):
                raw.send(handle, 4, bytes([0x01, op, 0, 0, 0x06]))
                return
            start, end = struct.unpack_from('<HH', pdu, 1)
            kind = script[state['n'] % len(script)]
            state['n'] += 1
            if state['n'] > 3000:
                state['long'] = True
                return
            rsp = _scripted(op, start, end, kind, ulen, state['n'])
            key = (bytes(pdu), rsp)
            # a client that makes progress never repeats a request; the same (request, answer) pair for the fourth
            # time means the procedure goes round in circles
            seen[key] = seen.get(key, 0) + 1
            if seen[key] >= 4:
                state['loop'] = True
                return  # stop answering: the client would go on for ever
            if kind != 'valid':
                sim.fault(f'adversarial_response:{kind}')
            raw.send(handle, 4, rsp)

        raw.handlers[4] = on_att
        peer = Peer(cc)
        client = peer.gatt_client
        api = case['api']
        svc = gatt_client.ServiceProxy(client, 1, 0xFFFF, core.UUID('1800'), True)
        chp = gatt_client.CharacteristicProxy(client, 2, 0xFFFF, core.UUID('2A00'), 0x02)
        if api == 'discover_services':
            coro = client.discover_services()
        elif api == 'discover_service':
            coro = client.discover_service(core.UUID('1800'))
        elif api == 'discover_included_services':
            coro = client.discover_included_services(svc)
        elif api == 'discover_characteristics':
            coro = client.discover_characteristics([], svc)
        elif api == 'discover_descriptors':
            coro = client.discover_descriptors(chp)
        else:
            coro = client.discover_attributes()
        task = sim.loop.create_task(coro)
        st = sim.loop.drive(lambda: task.done() or state['loop'] or state['long'], vt_budget=40.0, step_budget=3_000_000)
        if state['long']:
            sim.probe('inconclusive_long_discovery')  # still advancing after 3000 requests: slow, not stuck
            task.cancel()
        elif state['loop']:
            sim.violation_once('loop', f'discovery-never-terminates:{api}:{script[(state["n"] - 1) % len(script)]}',
                               f'{api} repeats the identical request after the identical answer ({script}); request #{state["n"]}')
            task.cancel()
        elif not task.done():
            if st == 'timeout':
                # the client waits for a response we deliberately withheld? (we always answer) -> a real hang
                sim.violation_once('hang', f'discovery-hangs:{api}', f'{describe_task(task)} after {state["n"]} requests, script {script}')
            task.cancel()
        sim.loop.settle()
        sim.trace.shape(api, tuple(script))
        return result(sim, nontrivial=any(k != 'valid' for k in script))
    finally:
        sim.close()


def _scripted(op, start, end, kind, ulen, n):
    rop = {0x04: 0x05, 0x06: 0x07, 0x08: 0x09, 0x10: 0x11}[op]
    h = min(start, 0xFFFE)
    u = bytes(range(1, ulen + 1))

    def entry(handle):
        if op == 0x04:
            return struct.pack('<H', handle) + u
        if op == 0x06:
            return struct.pack('<HH', handle, handle)
        if op == 0x08:
            return struct.pack('<H', handle) + struct.pack('<BH', 0x02, min(handle + 1, 0xFFFF)) + u
        return struct.pack('<HH', handle, min(handle + 1, 0xFFFF)) + u

    def wrap(entries):
        body = b''.join(entries)
        if op == 0x04:
            return bytes([rop, 1 if ulen == 2 else 2]) + body
        if op == 0x06:
            return bytes([rop]) + body
        ln = len(entries[0]) if entries else 4
        return bytes([rop, ln]) + body

    if kind == 'valid':
        if start > end or start >= 0xFFF0 or n > 40:
            return bytes([0x01, op]) + struct.pack('<H', start) + bytes([0x0A])
        return wrap([entry(h), entry(h + 2)])
    if kind == 'empty_list':
        return wrap([])
    if kind == 'repeat_handle':
        return wrap([entry(h), entry(h)])
    if kind == 'decreasing':
        return wrap([entry(min(h + 5, 0xFFFF)), entry(h)])
    if kind == 'descending_within':
        # first entry at the requested start, last entry just below it: resuming "after the last handle" makes no progress
        return wrap([entry(h), entry(max(1, h - 1))])
    if kind == 'handle_ffff':
        return wrap([entry(0xFFFF)])
    if kind == 'wrong_type':
        return bytes([0x0B, 1, 2, 3])
    if kind == 'error_other':
        return bytes([0x01, op]) + struct.pack('<H', start) + bytes([0x0E])
    if kind == 'not_found':
        return bytes([0x01, op]) + struct.pack('<H', start) + bytes([0x0A])
    if kind == 'short_entry':
        return wrap([entry(h)])[:-1]
    if kind == 'decl_value_behind':
        # a characteristic declaration whose value handle lies BEFORE the declaration (wherever the client resumes from, it must
        # still move forward); other procedures get the fixed group
        if op == 0x08:
            if start <= 5 <= end:
                return wrap([struct.pack('<H', 5) + struct.pack('<BH', 0x02, 2) + u])
            return bytes([0x01, op]) + struct.pack('<H', start) + bytes([0x0A])
        kind = 'fixed_range'
    if kind == 'fixed_range':
        # the same answer whatever was asked: a group 0x0001..0x0005 (an entry below the requested start from the second request on)
        if op == 0x10:
            return wrap([struct.pack('<HH', 1, 5) + u])
        return wrap([entry(1)])
    if kind == 'no_advance':
        return wrap([entry(max(1, start - 1) if start > 1 else 1)])
    return bytes([0x01, op, 0, 0, 0x0A])


SCENARIOS = {'db': (gen_db, run_db), 'adversarial': (gen_adversarial, run_adversarial)}
