"""C03 — one HCI command outstanding; every command answered exactly once; procedures concluded.

Real: Host (send path, semaphore, response routing), Controller (dispatch, handlers, procedures),
hci codecs, LocalLink, Device. Stub: nothing but the delay channels (peers are real controllers).
"""
from __future__ import annotations

import asyncio

from bsim import genhci
from bsim.sim import PROFILE_NAMES, Sim, World, describe_task, result

PROPERTY = 'C03'
PLAN = {
    'quick': [('random', 5000), ('procedures', 4000)],
    'thorough': [('random', 150000), ('procedures', 100000)],
}
WALL_CAP = {'quick': 150, 'thorough': 1500}
EVIDENCE = {
    'level': 'exploration',
    'rule': ('random: 1-6 concurrent caller tasks issue 5-40 commands each, drawn from every registered command class '
             '(parameter bytes generated from the class field specs, accepted by the class parser) and from unregistered '
             'opcodes, under seeded host<->controller latency; procedures: one procedure-starting command per run in a drawn '
             'link situation (peer advertising / silent / removed from the link mid-procedure / cancelled / unknown handle). '
             'Non-trivial: at least two callers contended for the command semaphore, or a procedure was accepted as pending; '
             'distinct = distinct sequence of (boundary, packet kind, opcode/event code).'),
    'real': ['bumble.host.Host', 'bumble.controller.Controller', 'bumble.hci', 'bumble.link.LocalLink', 'bumble.device.Device'],
    'stub': ['latency channels between host and controller and on the air'],
    'assumptions': ['order-preserving, loss-free HCI transport', 'LE Create Connection to a silent peer may pend until cancelled',
                    'caller cancellation and response_timeout are not generated'],
}

# command opcode -> (completion matcher kind, key kind)
PROC = {
    0x0405: ('conn_complete', 'addr'),
    0x0406: ('disc_complete', 'handle'),
    0x0419: ('name_complete', 'addr'),
    0x041B: ('rrsf_complete', 'handle'),
    0x041C: ('rref_complete', 'handle'),
    0x200D: ('le_conn_complete', 'one'),
    0x2043: ('le_conn_complete', 'one'),
    0x2016: ('le_rrf_complete', 'handle'),
    0x2019: ('enc_change', 'handle'),
}
# judged only in the directed runs, where the peer's host is known to answer the request (the virtual controller has no
# connection-accept timeout, and a stock Device answers neither request by itself)
PROC_DIRECTED = {
    0x2064: ('cis_established', 'cis'),
    0x2066: ('cis_established', 'cis1'),  # LE Accept CIS Request (the peripheral's half of the CIS set-up)
    0x043D: ('sync_conn_complete', 'acl-addr'),
}


def _all_command_classes():
    from bumble import hci
    # vendor command classes register themselves when their module is imported (bumble imports the drivers lazily, during
    # the first Host.reset()): import them up front so that the registry - and with it the generated case - does not depend
    # on what ran earlier in this process
    import bumble.drivers.intel  # noqa: F401
    import bumble.drivers.rtk  # noqa: F401
    import bumble.vendor.android.hci  # noqa: F401
    import bumble.vendor.zephyr.hci  # noqa: F401

    return sorted(hci.HCI_Command.command_classes.items())


def _hints(n):
    addrs = []
    for i in range(n):
        addrs.append(bytes.fromhex(f'A{i}' * 6)[::-1])
        addrs.append(bytes.fromhex(f'F{i}' * 6)[::-1])
    return {'handles': [0x0001, 0x0001, 0x0002, 0x0EFF, 0x0000], 'addresses': addrs}


def gen_random(rng, tier, seed):
    classes = _all_command_classes()
    n = rng.choice([1, 2, 2, 3])
    situation = rng.choice(['idle', 'connected', 'connected', 'peer_advertising']) if n > 1 else 'idle'
    ncallers = rng.choice([1, 2, 3, 4, 6])
    callers = []
    hints = _hints(n)
    p_unreg = rng.choice([0.0, 0.05, 0.2])
    for _ in range(ncallers):
        seq = []
        for _ in range(rng.randint(3, 40 if tier == 'thorough' else 20)):
            if rng.random() < p_unreg:
                op = rng.choice([0x0000 + rng.randrange(1, 0x400), 0x3F << 10 | rng.randrange(0x400), rng.randrange(1, 0x10000), rng.choice([0x0000, 0xFFFF, 0x0400, 0xFC00])])
                if op in dict(classes):
                    op = 0xFC77
                seq.append([op, bytes(rng.getrandbits(8) for _ in range(rng.choice([0, 0, 1, 4, 31, 255])))])
            else:
                op, cls = rng.choice(classes)
                try:
                    params = genhci.gen_params(cls, rng, hints)
                except ValueError:
                    continue
                if op in (0x200A, 0x2039) and params[:1] != b'\x00' and rng.random() < 0.85:
                    # enabling advertising with the default (zero) interval makes the virtual controller spin on a
                    # zero-delay timer: legal but very expensive to simulate, so it is down-weighted, not excluded
                    continue
                seq.append([op, params])
        callers.append({'start': rng.choice([0.0, 0.0, 0.001, 0.01]) * rng.random(), 'gap': rng.choice([0.0, 0.0, 0.0005, 0.005]), 'ops': seq})
    ext = rng.random() < 0.3
    return {
        'n': n, 'situation': situation, 'profile': rng.choice(PROFILE_NAMES), 'ext_adv': ext,
        'drop_supported': rng.random() < 0.2, 'callers': callers, '_lists': ['callers'],
    }


class Monitor:
    """Wire monitors for clauses (1), (3) and (4) on node 0's HCI boundary."""

    def __init__(self, sim: Sim, world: World) -> None:
        from bumble import hci

        self.hci = hci
        self.sim = sim
        self.world = world
        self.host_out = 0  # commands that left the host minus CC/CS that reached it
        self.cur = None  # [opcode, replies] at the controller boundary
        self.host_last_op = None
        self.expect: list = []  # pending procedures [opcode, kind, key, situation]
        self.cancel_seen = False
        self.classic_cancel: set = set()
        self.max_out = 0
        self.proc = dict(PROC)
        sim.monitors.append(self.on_tap)

    def name(self, op):
        cls = self.hci.HCI_Command.command_classes.get(op)
        return cls.__name__ if cls else 'unregistered'

    def on_tap(self, chan, direction, data):
        if not chan.startswith('N0.'):
            return
        hci = self.hci
        if chan == 'N0.h2c':
            if data[0] != hci.HCI_COMMAND_PACKET:
                return
            op = int.from_bytes(data[1:3], 'little')
            self.sim.trace.shape('cmd', direction, op)
            if direction == 'tx':
                self.host_last_op = op
                self.host_out += 1
                self.max_out = max(self.max_out, self.host_out)
                if self.host_out > 1:
                    self.sim.violation_once('outstanding', 'outstanding>1', f'host sent {self.name(op)} with {self.host_out - 1} command(s) still unanswered')
            else:
                if self.cur is not None and self.cur[1] == 0:
                    pass  # already flagged on the host side
                self.cur = [op, 0, data]
        elif chan == 'N0.c2h':
            if data[0] != hci.HCI_EVENT_PACKET:
                return
            code = data[1]
            if code in (0x0E, 0x0F):
                if code == 0x0E:
                    op = int.from_bytes(data[4:6], 'little')
                    status = data[6] if len(data) > 6 else None
                else:
                    op = int.from_bytes(data[5:7], 'little')
                    status = data[3]
                if op == 0:
                    # opcode 0x0000 in a reply means "no command" (flow control only) - unless the command that is waiting for
                    # its reply was itself sent with opcode 0x0000
                    waiting = self.host_last_op if direction == 'rx' else (self.cur[0] if self.cur is not None and self.cur[1] == 0 else None)
                    if waiting != 0 or (direction == 'rx' and self.host_out == 0):
                        return
                self.sim.trace.shape('rsp', direction, op, code)
                if direction == 'rx':
                    self.host_out -= 1
                    return
                # controller egress
                if self.cur is None:
                    self.sim.violation_once('spurious', f'spurious-reply:{self.name(op)}', 'reply without a command')
                    return
                if op != self.cur[0]:
                    self.sim.violation_once('wrongop', f'reply-wrong-opcode:{self.name(self.cur[0])}', f'reply names {self.name(op)}')
                    return
                self.cur[1] += 1
                if self.cur[1] > 1:
                    self.sim.violation_once('double', f'double-reply:{self.name(op)}', f'{self.cur[1]} replies to one command')
                if code == 0x0F and status == 0 and op in self.proc and self.cur[1] == 1:
                    self.add_expectation(op, self.cur[2])
                if code == 0x0E and op == 0x200E and status == 0:
                    for e in self.expect:
                        if e[1] == 'le_conn_complete':
                            e.append('cancelled')
                if code == 0x0E and op == 0x0408 and status == 0:
                    self.classic_cancel.add(bytes(self.cur[2][4:10]))
            elif direction == 'tx':
                self.on_event(code, data)

    def add_expectation(self, op, cmd_bytes):
        kind, keykind = self.proc[op]
        params = cmd_bytes[4:]
        ctrl = self.world[0].controller
        situation = ''
        if keykind == 'cis':
            # one expectation per CIS named by the command
            n = params[0]
            for i in range(n):
                self.sim.probe('procedure_pending')
                self.expect.append([op, kind, int.from_bytes(params[1 + 4 * i:3 + 4 * i], 'little') & 0x0FFF, 'cis'])  # (CIS handle, ACL handle) per entry
            return
        if keykind == 'cis1':
            self.sim.probe('procedure_pending')
            self.expect.append([op, kind, int.from_bytes(params[0:2], 'little') & 0x0FFF, 'cis'])
            return
        if keykind == 'acl-addr':
            conn = ctrl.find_connection_by_handle(int.from_bytes(params[0:2], 'little') & 0x0FFF)
            self.sim.probe('procedure_pending')
            self.expect.append([op, kind, bytes(conn.peer_address) if conn is not None else None, 'handle=live' if conn is not None else 'handle=unknown'])
            return
        if keykind == 'handle':
            key = int.from_bytes(params[0:2], 'little') & 0x0FFF
            live = ctrl.find_connection_by_handle(key) is not None
            iso = ctrl.find_iso_link_by_handle(key) is not None or ctrl.find_classic_sco_link_by_handle(key) is not None
            situation = 'handle=live' if live else ('handle=iso-or-sco' if iso else 'handle=unknown')
        elif keykind == 'addr':
            key = bytes(params[0:6])
            present = any(bytes(nd.controller.public_address) == key for nd in self.world.nodes[1:]
                          if nd.controller in self.world.link.controllers)
            situation = 'peer=present' if present else 'peer=absent'
            if bytes(ctrl.public_address) == key:
                situation = 'peer=self'
        else:
            key = None
            if op == 0x200D:
                policy, ptype, key_addr = params[4], params[5], bytes(params[6:12])
            else:
                policy, ptype, key_addr = params[0], params[2], bytes(params[3:9])
            # (address type, address) the initiator looks for; None when it uses the accept list
            situation = (ptype & 1, key_addr) if policy == 0 and ptype in (0, 1) else None
        self.sim.probe('procedure_pending')
        self.expect.append([op, kind, key, situation])

    def on_event(self, code, data):
        hci = self.hci
        kind = None
        key = None
        if code == 0x03:
            kind, key = 'conn_complete', bytes(data[6:12])
        elif code == 0x05:
            kind, key = 'disc_complete', int.from_bytes(data[4:6], 'little') & 0x0FFF
        elif code == 0x07:
            kind, key = 'name_complete', bytes(data[4:10])
        elif code == 0x0B:
            kind, key = 'rrsf_complete', int.from_bytes(data[4:6], 'little') & 0x0FFF
        elif code == 0x23:
            kind, key = 'rref_complete', int.from_bytes(data[4:6], 'little') & 0x0FFF
        elif code in (0x08, 0x59, 0x30):
            kind, key = 'enc_change', int.from_bytes(data[4:6], 'little') & 0x0FFF
        elif code == 0x2C:
            kind, key = 'sync_conn_complete', bytes(data[6:12])
        elif code == 0x3E:
            sub = data[3]
            if sub in (0x01, 0x0A, 0x29):
                role = data[7] if len(data) > 7 else 0
                status = data[4]
                if status != 0 or role == 0:
                    kind, key = 'le_conn_complete', None
            elif sub == 0x04:
                kind, key = 'le_rrf_complete', int.from_bytes(data[5:7], 'little') & 0x0FFF
            elif sub == 0x19:
                kind, key = 'cis_established', int.from_bytes(data[5:7], 'little') & 0x0FFF
        if kind is None:
            return
        if kind == 'disc_complete' and len(data) > 3 and data[3] == 0:
            # the connection is gone (its handle may be given to a new connection later): remember it on the procedures still
            # pending on that handle, they can no longer be judged by looking the handle up at the end
            for e in self.expect:
                if e[2] == key and e[1] in ('rrsf_complete', 'rref_complete', 'le_rrf_complete', 'enc_change') and 'conn-gone' not in e[4:]:
                    e.append('conn-gone')
        for e in self.expect:
            if e[1] == kind and (e[2] is None or e[2] == key):
                self.expect.remove(e)
                self.sim.probe('procedure_concluded')
                break

    def end_state(self, handle) -> str:
        """Why a handle-keyed procedure may have lost its peer: stable facts for the signature."""
        ctrl = self.world[0].controller
        conn = ctrl.find_connection_by_handle(handle)
        if conn is None:
            return 'conn=gone'
        for nd in self.world.nodes[1:]:
            c = nd.controller
            if c not in self.world.link.controllers:
                continue
            for pc in list(c.le_connections.values()) + list(c.classic_connections.values()):
                if pc.peer_address == conn.self_address and pc.self_address == conn.peer_address:
                    return 'peer=present'
            if conn.transport == 0 and c.public_address == conn.peer_address:
                return 'peer=present'
        return 'peer=gone'

    def final(self, adv_addresses: set):
        for e in self.expect:
            op, kind, key, situation = e[:4]
            nm = self.name(op)
            if kind == 'le_conn_complete':
                if 'cancelled' in e[4:]:
                    self.sim.violation_once(f'proc:{nm}:cancel', f'procedure-not-concluded:{nm}:cancelled', 'LE Create Connection Cancel succeeded but no LE Connection Complete (status 0x02) followed')
                elif situation in adv_addresses:
                    exc = next((e[1] for e in reversed(self.sim.delivery_exceptions) if e[0] == 'N0.air'), 'none')
                    self.sim.violation_once(f'proc:{nm}:adv', f'procedure-not-concluded:{nm}:peer-advertising:raised={exc}', 'peer advertises but the pending connection never completed')
                continue
            if kind == 'conn_complete' and key in self.classic_cancel:
                situation += ':cancelled'
            if situation == 'handle=live' and isinstance(key, int):
                situation += ':' + ('conn=gone' if 'conn-gone' in e[4:] else self.end_state(key))
            self.sim.violation_once(f'proc:{nm}:{situation}', f'procedure-not-concluded:{nm}:{situation}', f'{nm} accepted (Command Status 0) but its completion event never arrived')


def _final(sim, mon, world, adv, wait):
    """Give pending procedures `wait` virtual seconds to conclude, then judge. If the step budget does not let that much
    virtual time pass (a scanner flooded by a fast advertiser), in-flight answers may still be on their way: no verdict."""
    t_end = sim.loop.time() + wait
    sim.loop.advance(wait, step_budget=400_000)
    if sim.loop.time() < t_end - 1e-3:
        sim.probe('final_wait_inconclusive')
        return
    mon.final(adv & _advertised(world))


def _quiet_fast_advertisers(sim, world):
    """After the callers are done only procedure conclusions are awaited: stop advertisers whose
    interval the random commands set to (almost) zero, they would only burn steps."""
    for nd in world.nodes:
        c = nd.controller
        la = c.le_legacy_advertiser
        if la.enabled and la.advertising_interval_min < 5:
            la.stop()
            sim.probe('fast_advertiser_stopped')
        for aset in c.advertising_sets.values():
            if aset.enabled and (aset.parameters is None or aset.parameters.primary_advertising_interval_min < 8):
                aset.stop()
                sim.probe('fast_advertiser_stopped')


def _advertised(world):
    """(address type, address bytes) of every advertiser that is still advertising connectably on the link."""
    adv = set()
    for nd in world.nodes[1:]:
        c = nd.controller
        if c not in world.link.controllers:
            continue
        la = c.le_legacy_advertiser
        if la.enabled and la.advertising_type == 0 and la.advertising_interval_min > 0:
            a = la.address
            adv.add((a.address_type & 1, bytes(a)))
    return adv


def _setup(sim, case, classic=False):
    from bumble import hci

    n = case['n']
    attrs = [{} for _ in range(n)]
    if case.get('ext_adv'):
        for a in attrs:
            pass
    world = World(sim, n, controller_attrs=attrs, classic=classic)
    if case.get('ext_adv'):
        for nd in world.nodes:
            c = nd.controller
            c.le_features = c.le_features | hci.LeFeatureMask.LE_EXTENDED_ADVERTISING
            c.supported_commands = set(c.supported_commands) | {
                hci.HCI_LE_SET_EXTENDED_ADVERTISING_PARAMETERS_COMMAND, hci.HCI_LE_SET_EXTENDED_ADVERTISING_DATA_COMMAND,
                hci.HCI_LE_SET_EXTENDED_SCAN_RESPONSE_DATA_COMMAND, hci.HCI_LE_SET_EXTENDED_ADVERTISING_ENABLE_COMMAND,
                hci.HCI_LE_SET_ADVERTISING_SET_RANDOM_ADDRESS_COMMAND, hci.HCI_LE_READ_NUMBER_OF_SUPPORTED_ADVERTISING_SETS_COMMAND,
                hci.HCI_LE_READ_MAXIMUM_ADVERTISING_DATA_LENGTH_COMMAND, hci.HCI_LE_EXTENDED_CREATE_CONNECTION_COMMAND,
                hci.HCI_LE_SET_EXTENDED_SCAN_PARAMETERS_COMMAND, hci.HCI_LE_SET_EXTENDED_SCAN_ENABLE_COMMAND,
                hci.HCI_LE_REMOVE_ADVERTISING_SET_COMMAND, hci.HCI_LE_CLEAR_ADVERTISING_SETS_COMMAND,
            }
    if case.get('drop_supported'):
        c = world[0].controller
        keep = sorted(c.supported_commands)
        c.supported_commands = set(keep[::2]) | {hci.HCI_RESET_COMMAND, hci.HCI_READ_BD_ADDR_COMMAND, hci.HCI_LE_READ_BUFFER_SIZE_COMMAND,
                                                 hci.HCI_READ_LOCAL_VERSION_INFORMATION_COMMAND, hci.HCI_READ_LOCAL_SUPPORTED_FEATURES_COMMAND,
                                                 hci.HCI_LE_READ_LOCAL_SUPPORTED_FEATURES_COMMAND, hci.HCI_SET_EVENT_MASK_COMMAND,
                                                 hci.HCI_LE_SET_EVENT_MASK_COMMAND, hci.HCI_READ_BUFFER_SIZE_COMMAND}
    world.power_on()
    return world


def run_random(case):
    from bumble import hci

    sim = Sim(case['seed'], case.get('profile', 'zero'), slow_node='N0')
    try:
        world = _setup(sim, case)
        if case['situation'] == 'connected':
            world.connect_le(0, 1)
        elif case['situation'] == 'peer_advertising':
            sim.must(world[1].device.start_advertising(advertising_interval_min=500.0, auto_restart=False), 'adv')
        mon = Monitor(sim, world)
        host = world[0].host
        results = []
        contended = [0]

        async def caller(ci, spec):
            if spec['start']:
                await asyncio.sleep(spec['start'])
            for k, (op, params) in enumerate(spec['ops']):
                cmd = hci.HCI_Command(parameters=bytes(params), op_code=op)
                if host.command_semaphore.locked():
                    contended[0] += 1
                try:
                    rsp = await host.send_command(cmd)
                except Exception as e:
                    # send_command() without check_result returns the reply whatever its status: an exception means that this
                    # caller did not receive the reply to its command
                    results.append((ci, k, op, type(e).__name__))
                    sim.violation_once('callerexc', f'caller-got-exception-instead-of-reply:{type(e).__name__}', f'{mon.name(op)}: {e!r}'[:200])
                    continue
                results.append((ci, k, op, rsp.command_opcode))
                if rsp.command_opcode != op:
                    sim.violation_once('wrongrsp', f'wrong-response:{mon.name(op)}', f'caller got the response for {mon.name(rsp.command_opcode)}')
                if spec['gap']:
                    await asyncio.sleep(spec['gap'])

        tasks = [sim.loop.create_task(caller(i, c)) for i, c in enumerate(case['callers'])]
        status = sim.loop.drive(lambda: all(t.done() for t in tasks), vt_budget=60.0, step_budget=100_000)
        if contended[0]:
            sim.probe('two_callers_contended_for_semaphore')
        if status != 'done':
            # who is stuck?
            cur = mon.cur
            if status == 'livelock':
                sim.probe('inconclusive_step_budget')  # e.g. a zero-interval advertising timer: busy, not stuck
            elif cur is not None and cur[1] == 0:
                exc = next((e[1] for e in reversed(sim.delivery_exceptions) if e[0] == 'N0.h2c'), 'none')
                sim.violation_once('noreply', f'no-reply:{mon.name(cur[0])}:raised={exc}',
                                   f'{mon.name(cur[0])} ({bytes(cur[2]).hex()[:80]}) got no Command Complete/Status; callers wait forever')
            else:
                pend = [describe_task(t) for t in tasks if not t.done()]
                exc = next((e[1] for e in reversed(sim.delivery_exceptions) if e[0] == 'N0.c2h'), 'none')
                nm = mon.name(cur[0]) if cur else 'none'
                sim.violation_once('lostrsp', f'response-not-delivered:{nm}:raised={exc}', f'controller replied but a caller still waits: {pend[:2]}')
            for t in tasks:
                t.cancel()
        for t in tasks:
            if t.done() and not t.cancelled() and t.exception() is not None:
                e = t.exception()
                sim.violation_once('callerexc', f'caller-crashed:{type(e).__name__}', str(e)[:200])
        adv = _advertised(world)
        _quiet_fast_advertisers(sim, world)
        _final(sim, mon, world, adv, 30.0)
        nontrivial = contended[0] > 0 or sim.probes['procedure_pending'] > 0
        return result(sim, nontrivial=nontrivial)
    finally:
        sim.close()


# --------------------------------------------------------------------------------------
PROCS = ['le_create', 'le_create_ext', 'disconnect', 'le_read_remote_features', 'le_enable_encryption',
         'classic_create', 'remote_name', 'classic_remote_features', 'classic_remote_ext_features', 'le_create_cis', 'sco_setup', 'le_accept_cis']


def gen_procedures(rng, tier, seed):
    proc = rng.choice(PROCS)
    case = {'n': rng.choice([2, 2, 3]), 'proc': proc, 'profile': rng.choice(PROFILE_NAMES), 'ext_adv': proc == 'le_create_ext',
            'own_public': rng.random() < 0.3, 'when': round(rng.random() * 0.05, 4), 'extra_callers': rng.choice([0, 0, 1, 2])}
    if proc in ('le_create', 'le_create_ext'):
        case['situation'] = rng.choice(['peer_advertising', 'peer_advertising', 'peer_silent_cancel', 'peer_adv_later', 'peer_adv_cancel_race'])
    elif proc in ('classic_create', 'remote_name'):
        case['situation'] = rng.choice(['peer_present', 'peer_present', 'peer_absent', 'peer_vanishes'])
        if proc == 'classic_create' and rng.random() < 0.3:
            case['situation'] += '+cancel'
        elif proc == 'classic_create' and rng.random() < 0.3:
            # the paged host accepts asking for the central role (a role switch before the connection completes), and the
            # paging host may or may not allow that
            case['situation'] = 'peer_present+accept_as_central'
            case['allow_role_switch'] = rng.randrange(2)
        elif proc == 'classic_create' and rng.random() < 0.35:
            # two pages towards two present peers pending at once; the first peer's host may be slow to accept
            case['situation'] = 'two_peers'
            case['n'] = 3
            case['stall_first'] = rng.choice([0, 0.02, 0.2])
    elif proc == 'le_accept_cis':
        # the commanding host is the peripheral: the peer (central) asks for a CIS, this host accepts it, and the ACL connection may
        # go away (the peer's host disconnects it, or the peer drops off the link) while the acceptance is on its way
        case['situation'] = rng.choice(['accept', 'accept+cut_by_peer', 'accept+cut_by_peer', 'accept+peer_drops_off'])
        case['when'] = rng.choice([0.0, 0.0, 0.0002, 0.001, 0.01])
    elif proc in ('le_create_cis', 'sco_setup'):
        # the peer's host accepts; the ACL connection may be disconnected (by either host) while the link is being set up
        case['situation'] = rng.choice(['accept', 'accept+acl_disconnect', 'accept+acl_disconnect_by_peer', 'unknown_handle'])
        case['accept_delay'] = rng.choice([0, 0, 0.005, 0.03])
        case['n_cis'] = rng.choice([1, 1, 2])
    else:
        case['situation'] = rng.choice(['live', 'live', 'unknown_handle', 'peer_vanishes'])
        # role of the commanding host on that link, and the peer controller's capability set (a random subset of its LE features)
        case['as_peripheral'] = rng.random() < 0.4
        # the peer's host programs a new random address after the connection is up (privacy), then the peer disappears
        case['peer_readdr'] = rng.random() < 0.4
        case['peer_feature_mask'] = rng.choice([None, None, rng.getrandbits(64), rng.getrandbits(64) & rng.getrandbits(64), 0])
        # the host first "accepts" a connection request from the peer it is already connected to (there is none pending), asking
        # for either role: the procedure that follows on the live handle must still be concluded for that handle
        case['stray_accept'] = rng.choice([None, None, 0, 1]) if proc.startswith('classic_remote') else None
    return case


async def _quiet(coro):
    try:
        return await coro
    except Exception:
        return None


def run_procedures(case):
    from bumble import hci

    proc = case['proc']
    classic = proc.startswith('classic') or proc in ('remote_name', 'sco_setup')
    sim = Sim(case['seed'], case.get('profile', 'zero'), slow_node='N1')
    try:
        world = _setup(sim, case, classic=classic)
        n0, n1 = world[0], world[1]
        host = n0.host
        situation = case['situation']
        handle = 0x0EFE
        if classic:
            if 'peer_present' in situation or situation in ('live', 'peer_vanishes', 'peer_vanishes+cancel'):
                pass
            if proc in ('classic_remote_features', 'classic_remote_ext_features', 'sco_setup') and situation != 'unknown_handle':
                got1 = []
                n1.device.once('connection', got1.append)
                conn = sim.must(n0.device.connect(n1.controller.public_address, transport=0), 'classic connect')
                sim.loop.drive(lambda: bool(got1), 10.0)
                sim.loop.settle()
                handle = conn.handle
                peer_conn = got1[0] if got1 else None
        else:
            if proc == 'le_create_cis' and situation != 'unknown_handle':
                cc, cp = world.connect_le(0, 1)
                handle = cc.handle
                peer_conn = cp
            if proc == 'le_accept_cis':
                cc, cp = world.connect_le(1, 0)
                handle = cp.handle
                peer_conn = cc
            if proc in ('disconnect', 'le_read_remote_features', 'le_enable_encryption') and situation != 'unknown_handle':
                if case.get('peer_feature_mask') is not None:
                    n1.controller.le_features = hci.LeFeatureMask(int(n1.controller.le_features) & case['peer_feature_mask'])
                    sim.probe('peer_controller_with_reduced_feature_set')
                if case.get('as_peripheral'):
                    cc, cp = world.connect_le(1, 0, own_address_type=hci.OwnAddressType.PUBLIC if case['own_public'] else None)
                    handle = cp.handle
                    sim.probe('commanding_host_is_peripheral')
                else:
                    cc, cp = world.connect_le(0, 1, own_address_type=hci.OwnAddressType.PUBLIC if case['own_public'] else None)
                    handle = cc.handle
        if case.get('peer_readdr') and not classic and handle != 0x0EFE:
            sim.must(n1.host.send_command(hci.HCI_LE_Set_Random_Address_Command(random_address=hci.Address('D1:00:00:00:77:01', hci.Address.RANDOM_DEVICE_ADDRESS))), 'readdr')
            sim.probe('peer_changed_its_random_address_after_connecting')
        mon = Monitor(sim, world)
        if proc in ('le_create_cis', 'sco_setup', 'le_accept_cis'):
            mon.proc.update(PROC_DIRECTED)

        def vanish():
            sim.fault('peer_vanish')
            world.link.remove_controller(n1.controller)

        cmds = []
        later = []  # (delay, fn)
        own = 0 if case['own_public'] else 1
        if proc in ('le_create', 'le_create_ext'):
            peer = n1.device.random_address
            if proc == 'le_create':
                cmds.append(hci.HCI_LE_Create_Connection_Command(
                    le_scan_interval=16, le_scan_window=16, initiator_filter_policy=0, peer_address_type=peer.address_type,
                    peer_address=peer, own_address_type=own, connection_interval_min=12, connection_interval_max=24,
                    max_latency=0, supervision_timeout=72, min_ce_length=0, max_ce_length=0))
            else:
                cmds.append(hci.HCI_LE_Extended_Create_Connection_Command(
                    initiator_filter_policy=0, own_address_type=own, peer_address_type=peer.address_type, peer_address=peer,
                    initiating_phys=1, scan_intervals=[16], scan_windows=[16], connection_interval_mins=[12],
                    connection_interval_maxs=[24], max_latencies=[0], supervision_timeouts=[72], min_ce_lengths=[0], max_ce_lengths=[0]))
            if situation in ('peer_advertising', 'peer_adv_cancel_race'):
                sim.must(n1.device.start_advertising(advertising_interval_min=500.0, auto_restart=False), 'adv')
            if situation == 'peer_adv_later':
                later.append((case['when'] + 0.01, lambda: sim.loop.create_task(n1.device.start_advertising(advertising_interval_min=500.0, auto_restart=False))))
            if situation in ('peer_silent_cancel', 'peer_adv_cancel_race'):
                later.append((case['when'], lambda: sim.loop.create_task(host.send_command(hci.HCI_LE_Create_Connection_Cancel_Command()))))
        elif proc == 'disconnect':
            cmds.append(hci.HCI_Disconnect_Command(connection_handle=handle, reason=0x13))
        elif proc == 'le_read_remote_features':
            cmds.append(hci.HCI_LE_Read_Remote_Features_Command(connection_handle=handle))
        elif proc == 'le_enable_encryption':
            cmds.append(hci.HCI_LE_Enable_Encryption_Command(connection_handle=handle, random_number=bytes(8), encrypted_diversifier=0, long_term_key=bytes(16)))
        elif proc == 'classic_create':
            addr = n1.controller.public_address if 'absent' not in situation else hci.Address('DE:AD:BE:EF:00:01', hci.Address.PUBLIC_DEVICE_ADDRESS)
            cmds.append(hci.HCI_Create_Connection_Command(bd_addr=addr, packet_type=0xCC18, page_scan_repetition_mode=2, reserved=0, clock_offset=0,
                                                          allow_role_switch=case.get('allow_role_switch', 1)))
            if 'accept_as_central' in situation:
                async def accept_as_central():
                    try:
                        await n1.device.accept(role=hci.Role.CENTRAL, timeout=20.0)
                    except Exception:
                        pass
                sim.loop.create_task(accept_as_central())
                sim.loop.settle(vt_budget=0.001)
                sim.probe('paged_host_accepts_asking_for_the_central_role')
            if '+cancel' in situation:
                later.append((case['when'], lambda: sim.loop.create_task(host.send_command(hci.HCI_Create_Connection_Cancel_Command(bd_addr=addr)))))
            if situation == 'two_peers':
                cmds.append(hci.HCI_Create_Connection_Command(bd_addr=world[2].controller.public_address, packet_type=0xCC18, page_scan_repetition_mode=2, reserved=0, clock_offset=0, allow_role_switch=1))
                if case.get('stall_first'):
                    n1.c2h.stall(case['stall_first'])
                sim.probe('two_pages_to_two_peers_pending')
        elif proc == 'remote_name':
            addr = n1.controller.public_address if 'absent' not in situation else hci.Address('DE:AD:BE:EF:00:01', hci.Address.PUBLIC_DEVICE_ADDRESS)
            cmds.append(hci.HCI_Remote_Name_Request_Command(bd_addr=addr, page_scan_repetition_mode=2, reserved=0, clock_offset=0))
        elif proc == 'le_create_cis':
            import warnings
            from bumble.device import CigParameters
            warnings.simplefilter('ignore', FutureWarning)

            def on_cis_request(link):
                async def answer():
                    await asyncio.sleep(case.get('accept_delay', 0))
                    try:
                        await n1.device.accept_cis_request(link)
                    except Exception:
                        pass
                sim.loop.create_task(answer())
            n1.device.on('cis_request', on_cis_request)
            nc = case.get('n_cis', 1)
            cis_handles = sim.must(n0.device.setup_cig(CigParameters(cig_id=1, cis_parameters=[CigParameters.CisParameters(cis_id=2 + i) for i in range(nc)],
                                                                    sdu_interval_c_to_p=0, sdu_interval_p_to_c=0)), 'cig')
            cmds.append(hci.HCI_LE_Create_CIS_Command(cis_connection_handle=list(cis_handles), acl_connection_handle=[handle] * nc))
        elif proc == 'le_accept_cis':
            import warnings
            from bumble.device import CigParameters
            warnings.simplefilter('ignore', FutureWarning)
            accept_seen = []

            def on_cis_request_here(acl_handle, cis_handle, cig_id, cis_id):
                # this host accepts with the raw command (the monitored boundary) ...
                accept_seen.append(cis_handle)
                tasks.append(sim.loop.create_task(_quiet(host.send_command(hci.HCI_LE_Accept_CIS_Request_Command(connection_handle=cis_handle)))))
                # ... while the ACL connection is taken away from under it
                if 'cut_by_peer' in situation:
                    sim.loop.sim_after(case['when'], lambda: sim.loop.create_task(_quiet(n1.host.send_command(hci.HCI_Disconnect_Command(connection_handle=peer_conn.handle, reason=0x13)))))
                elif 'drops_off' in situation:
                    sim.loop.sim_after(case['when'], vanish)
            host.on('cis_request', on_cis_request_here)
            cis_handles = sim.must(n1.device.setup_cig(CigParameters(cig_id=1, cis_parameters=[CigParameters.CisParameters(cis_id=2)], sdu_interval_c_to_p=0, sdu_interval_p_to_c=0)), 'cig')
            sim.loop.create_task(_quiet(n1.host.send_command(hci.HCI_LE_Create_CIS_Command(cis_connection_handle=list(cis_handles), acl_connection_handle=[peer_conn.handle]))))
            sim.probe('commanding_host_accepts_a_cis_as_peripheral')
        elif proc == 'sco_setup':
            from bumble import hfp
            params = hfp.ESCO_PARAMETERS[hfp.DefaultCodecParameters.ESCO_CVSD_S1].asdict()

            def on_sco_request(conn, link_type):
                async def answer():
                    await asyncio.sleep(case.get('accept_delay', 0))
                    try:
                        await n1.device.send_command(hci.HCI_Enhanced_Accept_Synchronous_Connection_Request_Command(bd_addr=conn.peer_address, **params))
                    except Exception:
                        pass
                sim.loop.create_task(answer())
            n1.device.on('sco_request', on_sco_request)
            cmds.append(hci.HCI_Enhanced_Setup_Synchronous_Connection_Command(connection_handle=handle, **params))
        elif proc == 'classic_remote_features':
            if case.get('stray_accept') is not None and situation != 'unknown_handle':
                cmds.append(hci.HCI_Accept_Connection_Request_Command(bd_addr=n1.controller.public_address, role=case['stray_accept']))
            cmds.append(hci.HCI_Read_Remote_Supported_Features_Command(connection_handle=handle))
        elif proc == 'classic_remote_ext_features':
            if case.get('stray_accept') is not None and situation != 'unknown_handle':
                cmds.append(hci.HCI_Accept_Connection_Request_Command(bd_addr=n1.controller.public_address, role=case['stray_accept']))
            cmds.append(hci.HCI_Read_Remote_Extended_Features_Command(connection_handle=handle, page_number=1))
        if 'acl_disconnect_by_peer' in situation:
            later.append((case['when'], lambda: sim.loop.create_task(n1.host.send_command(hci.HCI_Disconnect_Command(connection_handle=peer_conn.handle, reason=0x13)))))
        elif 'acl_disconnect' in situation:
            later.append((case['when'], lambda: sim.loop.create_task(host.send_command(hci.HCI_Disconnect_Command(connection_handle=handle, reason=0x13)))))
        if 'vanish' in situation:
            if case['when'] < 0.01:
                sim.call(vanish)  # (inside the loop: the link tells the remaining controllers at once)
            else:
                later.append((case['when'], vanish))

        async def main():
            for c in cmds:
                try:
                    await host.send_command(c)
                except Exception:
                    pass

        async def noise(k):
            for _ in range(3):
                await host.send_command(hci.HCI_Read_BD_ADDR_Command())
                await asyncio.sleep(0.001 * (k + 1))

        tasks = [sim.loop.create_task(main())] + [sim.loop.create_task(noise(k)) for k in range(case['extra_callers'])]
        for d, fn in later:
            sim.loop.sim_after(d, fn)
        t_start = sim.loop.time()
        status = sim.loop.drive(lambda: all(t.done() for t in tasks) and sim.loop.time() > case['when'] + 0.02
                                and (proc != 'le_accept_cis' or bool(accept_seen) or sim.loop.time() > t_start + 5.0), vt_budget=60.0, step_budget=400_000)
        if status != 'done' and not all(t.done() for t in tasks):
            cur = mon.cur
            if cur is not None and cur[1] == 0:
                exc = next((e[1] for e in reversed(sim.delivery_exceptions) if e[0] == 'N0.h2c'), 'none')
                sim.violation_once('noreply', f'no-reply:{mon.name(cur[0])}:raised={exc}:{situation}', f'{mon.name(cur[0])} got no reply in situation {situation}')
            else:
                sim.violation_once('hang', f'caller-hang:{proc}:{situation}', f'{[describe_task(t) for t in tasks if not t.done()][:2]}')
            for t in tasks:
                t.cancel()
        adv = _advertised(world)
        _quiet_fast_advertisers(sim, world)
        _final(sim, mon, world, adv, 60.0)
        sim.trace.shape(proc, situation)
        return result(sim, nontrivial=sim.probes['procedure_pending'] > 0)
    finally:
        sim.close()


def shrink_candidates(case):
    if case.get('scenario') != 'random':
        return
    callers = case['callers']
    for ci, cl in enumerate(callers):
        ops = cl['ops']
        n = len(ops)
        chunk = max(1, n // 2)
        while chunk >= 1:
            for start in range(0, n, chunk):
                new_ops = ops[:start] + ops[start + chunk:]
                c = dict(case)
                c['callers'] = [dict(x) for x in callers]
                c['callers'][ci]['ops'] = new_ops
                yield c
            if chunk == 1:
                break
            chunk //= 2
    if case.get('n', 1) > 1 and case.get('situation') == 'idle':
        c = dict(case)
        c['n'] = 1
        yield c


SCENARIOS = {'random': (gen_random, run_random), 'procedures': (gen_procedures, run_procedures)}
