"""C17 — hostile peer or controller input cannot wedge or derail the stack.

The victim (N0) is a complete bumble stack. The attacker is the peer on the simulated link (a RawPeer for the fixed LE channels, a
real bumble client that opened the dynamic channel legitimately and then writes garbage into it for SDP / RFCOMM / HFP / AVDTP / AVCTP)
or the victim's own controller (garbage HCI packets injected into its controller->host channel). After every sequence of hostile
frames a well-formed reference request is made on the same channel or protocol.
"""
from __future__ import annotations

import asyncio
import signal
import struct
import sys
import traceback

from bsim.sim import HarnessError, Sim, World, result

PROPERTY = 'C17'
PLAN = {
    'quick': [('le', 2400), ('classic', 2100), ('hci', 1500)],
    'thorough': [('le', 40000), ('classic', 26000), ('hci', 30000)],
}
WALL_CAP = {'quick': 170, 'thorough': 1700}
RUN_WALL_LIMIT = 150
EVIDENCE = {
    'level': 'exploration',
    'rule': ('one run = a victim stack with one connection, a seeded sequence of 1..14 hostile frames on one target (ATT to the server, ATT to the '
             'client with or without a request pending, SMP, LE signalling, arbitrary CIDs, raw L2CAP frames with inconsistent length fields; classic '
             'signalling, SDP, RFCOMM, HFP AT stream to an AG and to an HF, AVDTP, AVCTP; HCI event / ACL / ISO / SCO / unknown packets from the '
             'controller), then a well-formed reference request on the same channel or protocol whose answer is compared with the answer before the '
             'attack. Frames are random bytes, valid PDUs of a per-protocol corpus that are truncated, extended, bit-flipped, concatenated or get '
             'their length fields falsified, plus per-protocol nasties (deeply nested SDP sequences, AVDTP/AVCTP fragment-flag permutations, AT lines '
             'with unbalanced quotes and parentheses and missing terminators). Non-trivial: at least one hostile frame was processed by the victim '
             'and the reference request was made.'),
    'real': ['bumble.host', 'bumble.device', 'bumble.l2cap', 'bumble.att', 'bumble.gatt_server', 'bumble.gatt_client', 'bumble.smp', 'bumble.sdp', 'bumble.rfcomm',
             'bumble.hfp', 'bumble.at', 'bumble.avdtp', 'bumble.avctp', 'bumble.hci', 'bumble.controller', 'bumble.link'],
    'stub': ['attacker upper layers on fixed channels (RawPeer)', 'hostile frame generator'],
    'assumptions': ['an exception that the transport boundary would contain (captured at the simulated HCI channel) is an ordinary exception',
                    'a RecursionError (even one that bumble catches: the call depth while one frame is processed is metered with sys.setprofile and must stay below 300 frames), a frame that needs more than 8 s of wall time or 60000 loop steps, counts as unbounded recursion / busy loop',
                    'well-formed HCI events that legitimately end or replace the connection (Disconnection Complete / Connection Complete for the live handle) and '
                    'FCS-valid RFCOMM SABM/DISC/DM frames and FCS-valid PN/MSC/FCon/FCoff/CLD multiplexer commands are legitimate closes, re-negotiations or flow-control stops: the reference request is skipped for them',
                    'an SMP reference Pairing Request is preceded by a Pairing Failed so that no earlier session is in progress'],
}

REF = b'ref-\x01\x02\x03\x04'
FRAME_WALL = 8.0


class FrameTimeout(KeyboardInterrupt):
    """Raised by SIGALRM inside the victim's processing of one frame (KeyboardInterrupt passes through asyncio)."""


_stuck = {}


def _on_alarm(signum, frame):
    where = []
    f = frame
    while f is not None:
        fn = f.f_code.co_filename
        if '/bumble/' in fn:
            where.append(f'{fn.rsplit("/", 1)[1]}:{f.f_code.co_name}')
        f = f.f_back
    _stuck['where'] = where[0] if where else 'outside-bumble'
    _stuck['stack'] = '>'.join(reversed(where[:6]))
    raise FrameTimeout()


class Guard:
    """Wall-clock guard around the processing of one hostile frame."""

    def __init__(self, sim, label):
        self.sim = sim
        self.label = label

    def __enter__(self):
        self.prev = signal.signal(signal.SIGALRM, _on_alarm)
        self.rest = signal.setitimer(signal.ITIMER_REAL, FRAME_WALL)[0]
        return self

    def __exit__(self, et, ev, tb):
        signal.setitimer(signal.ITIMER_REAL, 0)
        signal.signal(signal.SIGALRM, self.prev)
        if self.rest:
            signal.setitimer(signal.ITIMER_REAL, max(1.0, self.rest))
        if et is FrameTimeout:
            self.sim.violation_once('busy', f'busy-loop:{self.label}:at={_stuck.get("where")}', f'one frame kept the victim busy for more than {FRAME_WALL} s of wall time: {_stuck.get("stack")}')
            raise Wedged()
        return False


class Wedged(Exception):
    pass


DEPTH_LIMIT = 300  # Python frames above the simulator's own while one hostile frame is processed
_depth = {'now': 0, 'max': 0}


def _profile(frame, event, arg):
    if event == 'call':
        d = _depth['now'] = _depth['now'] + 1
        if d > _depth['max']:
            _depth['max'] = d
    elif event == 'return':
        _depth['now'] -= 1


def process(sim, label, fn, *args, vt=1.0):
    """Hand one hostile frame to the victim and let it be processed."""
    steps0 = sim.loop.steps
    with Guard(sim, label):
        _depth['now'] = _depth['max'] = 0
        sys.setprofile(_profile)
        try:
            sim.call(fn, *args)
            st = sim.loop.settle(vt_budget=vt, step_budget=60_000)
        finally:
            sys.setprofile(None)
    sim.run_max_depth = max(getattr(sim, 'run_max_depth', 0), _depth['max'])
    if _depth['max'] > DEPTH_LIMIT:
        sim.violation_once('recursion', f'unbounded-recursion:{label}:depth', f'processing one frame nested {_depth["max"]} Python calls deep (limit {DEPTH_LIMIT}): recursion depth is controlled by the input')
    if st == 'livelock':
        sim.violation_once('busy', f'busy-loop:{label}:steps', f'one frame caused more than 60000 loop steps without time passing')
        raise Wedged()
    sim.probe('hostile_frames_processed')
    return sim.loop.steps - steps0


def note_exceptions(sim):
    sim.probe(f'runs_with_max_call_depth_in:{getattr(sim, "run_max_depth", 0) // 50 * 50:03d}-{getattr(sim, "run_max_depth", 0) // 50 * 50 + 49:03d}')
    for name, kind, msg in sim.delivery_exceptions:
        if name.startswith('N0'):
            sim.probe(f'victim_exception_contained:{kind}')
    for _, _, kind, msg in sim.loop.callback_exceptions:
        sim.probe(f'task_exception:{kind}')


def check_recursion(sim, label):
    for name, kind, msg in sim.delivery_exceptions:
        if kind == 'RecursionError' and name.startswith('N0'):
            sim.violation_once('recursion', f'unbounded-recursion:{label}', f'RecursionError while the victim processed a frame ({name})')
            return
    for _, _, kind, msg in sim.loop.callback_exceptions:
        if kind == 'RecursionError':
            sim.violation_once('recursion', f'unbounded-recursion:{label}', 'RecursionError in a victim task')
            return


# ====================================================================================== hostile frame generator
def H(s):
    return bytes.fromhex(s.replace(' ', ''))


ATT_TO_SERVER = [H(x) for x in (
    '02 1700', '02 0502', '04 0100 ffff', '06 0100 ffff 0028 0018', '08 0100 ffff 0328', '08 0100 ffff 0229', '0a 0300', '0a 0500', '0c 0300 0000', '0c 0300 ff00',
    '0e 0300 0500', '0e 0300', '10 0100 ffff 0028', '10 0100 ffff 0128', '12 0500 aabb', '12 0600 0100', '12 0600 0200', '52 0500 aa', '16 0500 0000 aabb',
    '16 0500 ffff aa', '18 01', '18 00', '20 0300 0500', 'd2 0500 aa 000000000000000000000000', '1e', '1b 0300 aa', '1d 0300 aa', '01 0a 0300 0a', '0b aabb', '03 1700',
    '08 0100 ffff 0000000000001000800000805f9b34fb', '04 0000 0000', '10 ffff 0100 0028', '0a 0000', '0a ffff', '12 0000', '3f', 'ff 00')]
ATT_TO_CLIENT = [H(x) for x in (
    '0b aabbcc', '0b', '01 0a 0300 0a', '01 0a 0300 01', '01 00 0000 00', '03 1700', '03 0000', '05 01 0100 0028', '05 02 0100 0000000000001000800000805f9b34fb', '05 01', '05 07 0100',
    '09 07 0200 02 0300 00 2a', '09 00', '09 ff 01', '11 06 0100 0500 0018', '11 00', '0d aabb', '0f aa', '13', '17 0500 0000 aa', '19', '1b 0300 aa', '1b', '1b 03',
    '1d 0300 aa', '1d', '1d 0300', '21 0200aabb', '23 0300 aa', '07 0100 0500', '1e', '0a 0300', '12 0300 aa')]
SMP = [H(x) for x in (
    '01 03 00 01 10 07 07', '01 04 00 2d 10 0f 0f', '01 03 00 01 06 07 07', '01 03 00 01 11 07 07', '02 03 00 01 10 07 07', '03 ' + '11' * 16, '04 ' + '22' * 16, '05 08', '05 00', '05 ff',
    '06 ' + '33' * 16, '07 0102 0102030405060708', '08 ' + '44' * 16, '09 00 a1a2a3a4a5a6', '09 01 a1a2a3a4a5c6', '0a ' + '55' * 16, '0b 01', '0b 0d', '0c ' + '66' * 64,
    '0c ' + '00' * 64, '0d ' + '77' * 16, '0e 00', '0e 05', '0f', '00', 'ff 00')]
LE_SIG = [H(x) for x in (
    '12 01 0800 0600 0c00 0000 c800', '12 02 0800 ffff ffff ffff ffff', '13 01 0200 0000', '14 02 0a00 8000 4000 1700 1700 0a00', '14 03 0a00 8000 4100 ffff ffff ffff',
    '14 04 0a00 8000 4200 0100 0100 0000', '14 05 0a00 0000 4300 1700 1700 0100', '14 06 0a00 8000 0000 1700 1700 0100', '15 02 0a00 4000 1700 1700 0a00 0000',
    '16 03 0400 4000 0100', '16 04 0400 4000 ffff', '16 05 0400 0000 0000', '17 04 0a00 2700 4000 4000 0100 4400', '17 05 1200 8000 4000 4000 0100 4500 4600 4700 4800 4900',
    '17 06 0800 8000 4000 4000 0100', '18 04 0a00 4000 4000 0100 0000 4000', '19 05 0600 4000 4000 4000', '19 06 0400 1000 1000', '1a 05 0200 0000',
    '06 06 0400 4000 4100', '06 07 0400 0000 0000', '07 06 0400 4000 4100', '01 07 0200 0000', '01 08 0600 0100 1700 0000', '08 09 0400 aabbccdd', '0a 0a 0200 0200',
    '02 0b 0400 0100 4000', '00 0c 0000', 'ff 0d 0000', '14 0e ffff 8000', '14 0f 0000')]
CL_SIG = [H(x) for x in (
    '02 01 0400 0100 4000', '02 02 0400 0300 4100', '02 03 0400 1900 4200', '02 04 0400 1700 0000', '02 05 0400 ffff 4300', '03 01 0800 4000 4000 0000 0000',
    '04 06 0800 4000 0000 0102 a002', '04 07 0400 4000 0000', '04 08 0f00 4000 0000 0409 03 00 0000 0000 0000 00', '04 09 0800 4000 0100 0102 3000', '04 0a 0600 4000 0000 ff00',
    '04 0b 0700 4000 0000 0102 a0', '05 06 0600 4000 0000 0000', '05 07 0a00 4000 0000 0400 0102 a002', '06 0c 0400 4000 4000', '06 0d 0400 0000 0000', '07 0c 0400 4000 4000',
    '08 0e 0400 aabbccdd', '08 0f 0000', '09 0e 0000', '0a 10 0200 0100', '0a 11 0200 0200', '0a 12 0200 0300', '0a 13 0200 ffff', '0b 10 0400 0200 0000',
    '01 14 0200 0000', '0c 15 0500 0100 4000 00', '0e 16 0600 4000 4000 0000', '10 17 0400 4000 4000', '17 18 0a00 2700 4000 4000 0100 4400', '00 19 0000', 'ff 1a 0000',
    '08 1b 0400 aabbccdd 0a 1c 0200 0200')]
SDP = [H(x) for x in (
    '02 0001 0008 35 03 19 1101 0010 00', '02 0002 0008 35 03 19 0100 ffff 00', '04 0003 000f 00010001 0040 35 05 0a 0000ffff 00', '04 0004 000d 00010001 ffff 35 03 09 0001 00',
    '06 0005 000f 35 03 19 1101 ffff 35 05 0a 0000ffff 00', '06 0006 0012 35 03 19 0100 0040 35 05 0a 0000ffff 02 0001', '06 0007 0010 35 03 19 1101 0007 35 05 0a 0000ffff 00',
    '01 0008 0002 0003', '03 0009 0009 0001 0001 00010001 00', '05 000a 0005 0002 3500 00', '07 000b 0005 0002 3500 00', '06 000c 000f 35 03 19 1101 ffff 35 05 0a 0000ffff 10' + 'aa' * 16,
    '06 000d 0000', '02 000e ffff 35 03 19 1101', '00 0000 0000', 'ff 0000 0000', '06 000f 0011 35 11 1c 0000110100001000800000805f9b34fb ffff 35 00 00',
    '06 0010 000d 35 06 19 1101 19 0100 ffff 35 00 00')]
AVDTP = [H(x) for x in (
    '00 01', '10 02 04', '20 03 04 04 01 00 07 06 00 00 ff ff 02 35', '30 04 04', '40 05 04 01 00', '50 06 04', '60 07 04', '70 08 04', '80 09 04', '90 0a 04', 'a0 0b 04', 'b0 0c 04', 'c0 0d 04',
    '00 3f', '10 00', '02 01 04 00', '03 01 00', '12 02 01 00 07 06 00 00 ff ff 02 35', '13 02 29',
    '04 03 01', '14 02 04', '08 aa', '0c aa', '18 bb', '1c cc', '24 00 01', '28', '2c', '34 ff 02 04', '38 ' + 'aa' * 40, '3c', '44 02', '48', '4c 00', '00', '')]
AVCTP = [H(x) for x in (
    '00 110e 00 48 00 00 19 58 10 00 00 01 03', '10 110e 00 48 00 00 19 58 20 00 00 00', '02 110e 0c 48 00', '03 110e', '00 ffff 00', '00 110e',
    '04 02 110e aa bb', '08 cc dd', '0c ee ff', '14 00 110e', '14 ff 110e aa', '18', '1c', '04', '04 01 110e aa', '0c', '08 ' + 'bb' * 60, '24 03 110e 01', '28 02', '2c 03', '00', '')]
AT_TO_AG = [x.encode() for x in (
    'AT+BRSF=1023\r', 'AT+CIND=?\r', 'AT+CIND?\r', 'AT+CMER=3,0,0,1\r', 'AT+CHLD=?\r', 'AT+BAC=1,2\r', 'AT+BIND=1,2\r', 'AT+BIND?\r', 'AT+BIND=?\r', 'ATA\r', 'AT+CHUP\r', 'ATD123;\r',
    'AT+VGS=10\r', 'AT+VGM=\r', 'AT+CLCC\r', 'AT+COPS=3,0\r', 'AT+COPS?\r', 'AT+BIA=1,,0\r', 'AT+BCS=2\r', 'AT+BCC\r', 'AT+NREC=0\r', 'AT+BVRA=1\r', 'AT+CMEE=1\r', 'AT+CLIP=1\r', 'AT+CCWA=1\r',
    'AT+BIEV=2,50\r', 'AT+CHLD=1\r', 'AT+CHLD=9x\r', 'AT+VTS=#\r', 'AT+CNUM\r', 'AT\r', 'A\r', '\r', 'AT+\r', 'AT+=\r', 'AT+?\r', 'AT+=?\r', 'AT+BRSF=\r', 'AT+BRSF=x\r', 'AT+BRSF="\r',
    'AT+BIA=(\r', 'AT+CMER=3,0,0,(1\r', 'AT+BAC="1,2\r', 'AT+CIND=?=?\r', 'AT+VGS=99999999999999999999\r', 'AT+CHLD=\x00\r', 'AT+BRSF=1023', '\xff\xfe\r', 'AT+' + 'A' * 300 + '\r',
    'AT+BIND=' + ','.join('1' for _ in range(300)) + '\r', 'AT+BRSF=1,2,3\n', 'AT+CMER=((((((((((\r', 'AT+BIA=))))\r', 'AT+CLCC=,,,,,,\r')]
AT_TO_HF = [x.encode() for x in (
    '\r\nOK\r\n', '\r\nERROR\r\n', '\r\n+CME ERROR: 30\r\n', '\r\n+CME ERROR: x\r\n', '\r\n+BRSF: 4095\r\n', '\r\n+CIEV: 1,1\r\n', '\r\n+CIEV: 99,1\r\n', '\r\n+CIEV: x\r\n', '\r\n+CIEV:\r\n',
    '\r\nRING\r\n', '\r\n+CLIP: "123",129\r\n', '\r\n+CLIP: "123\r\n', '\r\n+CIND: ("call",(0,1)),("callsetup",(0-3))\r\n', '\r\n+CIND: ("call",(0,1\r\n', '\r\n+CIND: 0,0,1\r\n',
    '\r\n+CHLD: (0,1,1x,2,2x,3,4)\r\n', '\r\n+CHLD: (((\r\n', '\r\n+BCS: 2\r\n', '\r\n+BCS: x\r\n', '\r\n+BIND: (1,2)\r\n', '\r\n+BIND: 1,1\r\n', '\r\n+BIND: )\r\n', '\r\n+VGS: 7\r\n',
    '\r\n+VGM: \r\n', '\r\n+BVRA: 1\r\n', '\r\n+CLCC: 1,0,0,0,0,"123",129\r\n', '\r\n+CLCC: 1\r\n', '\r\n+CCWA: "1",129\r\n', '\r\n+BSIR: 1\r\n', '\r\n+COPS: 0,0,"x"\r\n',
    '\r\n\r\n', '\r\n', '\r\n+\r\n', '\r\n:\r\n', '\r\n+CIEV: "\r\n', '\r\n\xff\xfe\r\n', '\r\n+CIEV: 1,1', '\r\n+' + 'B' * 300 + ': 1\r\n', '\r\n+CIND: ' + ','.join('1' for _ in range(300)) + '\r\n',
    '\r\n+CIEV: (((((((\r\n', '\r\nOK\r\n\r\nOK\r\n', 'garbage', '\r\nNO CARRIER\r\n', '\r\nBUSY\r\n', '\r\n+CNUM: ,"5551212",129,,4\r\n')]
RFCOMM_FR = [H(x) for x in (
    '03 3f 01 1c', '03 2f 01 1c', '0b 3f 01 59', '0b 53 01 b8', '03 53 01 fd', '03 1f 01 36', '0b ef 01 2c', '0b ff 03 05 aa 00', '03 ef 15 83 11 02 f0 07 00 40 00 00 07 70', '03 ef 09 e3 05 0b 8d 00 70',
    '03 ef 07 93 03 0b 70', '03 ef 05 ff 01 70', '03 ef 03 80 70', '03 ef 01 70', '03 ef', '0b', '', '0b ef 00 80 aa 00', '0b ef ff ff aa 00', '03 ef 0b 23 07 0b 00 00 00 00 70', '03 ef 05 13 01 aa 70',
    '03 ef 07 53 03 0b 01 70', '03 ef 09 91 05 0b 03 00 00 70', '03 ef 15 81 11 3e f0 07 00 ff ff 00 07 70')]


def _nested_sdp(depth, wide):
    inner = b'\x19\x11\x01'
    for _ in range(depth):
        if wide:
            inner = b'\x36' + struct.pack('>H', len(inner) & 0xFFFF) + inner
        else:
            inner = b'\x35' + bytes([len(inner) & 0xFF]) + inner
    body = inner + b'\xff\xff' + b'\x35\x05\x0a\x00\x00\xff\xff' + b'\x00'
    return b'\x06\x00\x21' + struct.pack('>H', len(body) & 0xFFFF) + body


def hostile(rng, corpus, maxlen=600, special=None):
    r = rng.random()
    if special is not None and r < 0.12:
        return special(rng)[:maxlen]
    if r < 0.22:
        n = rng.choice([0, 1, 2, 3, 4, 5, 7, 8, 16, 23, 24, 64, 200, maxlen])
        return bytes(rng.randrange(256) for _ in range(n))
    b = bytearray(rng.choice(corpus))
    if r < 0.34:
        return bytes(b)
    if r < 0.48:
        return bytes(b[:rng.randrange(len(b) + 1)])
    if r < 0.58:
        return bytes(b + bytes(rng.randrange(256) for _ in range(rng.choice([1, 2, 3, 16, 100]))))[:maxlen]
    if r < 0.74:
        for _ in range(rng.choice([1, 1, 2, 4])):
            if b:
                i = rng.randrange(len(b))
                b[i] ^= 1 << rng.randrange(8)
        return bytes(b)
    if r < 0.84:
        # falsify a byte that often is a length / count field
        if b:
            i = rng.randrange(min(len(b), 6))
            b[i] = rng.choice([0, 1, 0x7F, 0x80, 0xFE, 0xFF, len(b) & 0xFF, (len(b) + 1) & 0xFF])
        return bytes(b)
    if r < 0.92:
        return bytes(b + rng.choice(corpus))[:maxlen]
    if b:
        b[0] = rng.randrange(256)
    return bytes(b)


def _frames(rng, corpus, maxlen=600, special=None, lo=1, hi=14):
    return [hostile(rng, corpus, maxlen, special).hex() for _ in range(rng.randint(lo, hi))]


# ====================================================================================== LE: fixed channels
LE_TARGETS = ['att_server', 'att_client', 'att_client_late', 'att_indicate', 'smp', 'le_sig', 'cid', 'l2cap_raw', 'coc_data']


def gen_le(rng, tier, seed):
    target = rng.choice(LE_TARGETS)
    case = {'target': target, 'attacker_central': rng.random() < 0.5 or target == 'smp', 'profile': rng.choice(['zero', 'zero', 'lan', 'radio', 'burst']), '_lists': ['frames']}
    if target in ('att_server', 'att_indicate'):
        case['frames'] = _frames(rng, ATT_TO_SERVER)
    elif target == 'att_client':
        case['frames'] = _frames(rng, ATT_TO_CLIENT + ATT_TO_SERVER[:8])
        case['pending'] = rng.random() < 0.6
    elif target == 'att_client_late':
        # a request of the victim's client is pending; the peer sends stray responses of OTHER kinds (neither a Read Response nor an
        # Error Response, which would legitimately conclude the read), then answers the pending request late, and the victim at once
        # issues its next request
        fr = []
        while len(fr) < rng.randint(1, 6):
            f = hostile(rng, [x for x in ATT_TO_CLIENT if x[:1] not in (b'\x0b', b'\x01')])
            if f[:1] not in (b'\x0b', b'\x01'):
                fr.append(f.hex())
        case['frames'] = fr
    elif target == 'coc_data':
        # K-frames on an open LE credit-based channel whose SDU length field disagrees with what follows
        fr = []
        for _ in range(rng.randint(1, 8)):
            n = rng.choice([0, 1, 3, 10, 40, 62])
            body = bytes(rng.randrange(256) for _ in range(n))
            kind = rng.choice(['overflow', 'overflow', 'zero_len', 'exact', 'beyond_mtu', 'short_then_rest'])
            if kind == 'overflow':
                fr.append((struct.pack('<H', rng.randrange(0, max(1, n))) + body).hex())
            elif kind == 'zero_len':
                fr.append((struct.pack('<H', 0) + body).hex())
            elif kind == 'exact':
                fr.append((struct.pack('<H', n) + body).hex())
            elif kind == 'beyond_mtu':
                fr.append((struct.pack('<H', rng.choice([65, 100, 0x7FFF, 0xFFFF])) + body[:1]).hex() + ':abandon')
            else:
                rest = rng.randint(1, 30)
                fr.append((struct.pack('<H', n + rest) + body).hex() + ':' + bytes(rng.randrange(256) for _ in range(rest)).hex())
        case['frames'] = fr
    elif target == 'smp':
        case['frames'] = _frames(rng, SMP)
    elif target == 'le_sig':
        case['frames'] = _frames(rng, LE_SIG)
        while True:
            scid = rng.randrange(0x40, 0x80)
            if not any(struct.pack('<H', scid).hex() in f for f in case['frames']):
                break
        case['ref_scid'] = scid
    elif target == 'cid':
        case['frames'] = _frames(rng, ATT_TO_SERVER + SMP + LE_SIG)
        case['cids'] = [rng.choice([0, 1, 2, 3, 7, 8, 0x20, 0x3A, 0x3F, 0x40, 0x41, 0x7F, 0x80, 0xFFFF, rng.randrange(0x10000)]) for _ in case['frames']]
    else:
        frames = []
        for _ in range(rng.randint(1, 10)):
            payload = hostile(rng, ATT_TO_SERVER + LE_SIG, 300)
            cid = rng.choice([4, 4, 5, 6, 0x40, 0])
            ln = rng.choice([len(payload), len(payload), 0, 1, len(payload) + 1, max(0, len(payload) - 1), 0xFFFF, 0x8000, rng.randrange(0x10000)])
            raw = struct.pack('<HH', ln, cid) + payload
            if rng.random() < 0.2:
                raw = raw[:rng.randrange(5)]
            frames.append(raw.hex())
        case['frames'] = frames
    return case


class LeRig:
    def __init__(self, sim, case):
        from bumble import l2cap
        from bumble.gatt import Characteristic, CharacteristicValue, Service
        from bsim import pairing
        from bsim.rawpeer import RawPeer

        self.sim = sim
        world = World(sim, 2)
        self.world = world
        v = world[0].device
        P = Characteristic.Properties
        self.ref_char = Characteristic('F4A1', P.READ, Characteristic.READABLE, CharacteristicValue(read=lambda connection: REF))
        other = self.other = Characteristic('F4A2', P.READ | P.WRITE | P.WRITE_WITHOUT_RESPONSE | P.NOTIFY | P.INDICATE, Characteristic.READABLE | Characteristic.WRITEABLE, b'rw')
        v.add_service(Service('F3A0', [self.ref_char, other]))
        from bumble.keys import MemoryKeyStore
        v.keystore = MemoryKeyStore()
        pairing.install(sim, v, 'R', 3, True, False, True, {}, [], {})
        self.coc = []
        v.create_l2cap_server(l2cap.LeCreditBasedChannelSpec(psm=0x80, mtu=64, mps=32, max_credits=24), handler=self.coc.append)
        world.power_on()
        if case['attacker_central']:
            ca, cv = world.connect_le(1, 0)
        else:
            cv, ca = world.connect_le(0, 1)
        self.cv, self.ca = cv, ca
        self.raw = RawPeer(sim, world[1])
        self.rx = {}
        for cid in (4, 5, 6):
            self.raw.handlers[cid] = (lambda handle, payload, cid=cid: self.rx.setdefault(cid, []).append(payload))
        sim.loop.settle(vt_budget=1.0)

    def send(self, cid, payload):
        self.raw.send(self.ca.handle, cid, payload)

    def wait_rx(self, cid, pred, start, vt=10.0):
        got = []

        def until():
            for p in self.rx.get(cid, [])[start:]:
                if pred(p):
                    got.append(p)
                    return True
            return False
        self.sim.loop.drive(until, vt_budget=vt, step_budget=300_000)
        return got[0] if got else None

    def alive(self, label):
        v = self.world[0]
        if v.device.connections.get(self.cv.handle) is not self.cv or self.cv.handle not in v.host.connections:
            self.sim.violation_once('gone', f'connection-dropped:{label}', 'the connection is no longer in Device.connections / Host.connections although no disconnect was sent')
            return False
        return True

    def ref_att(self, label):
        """Reference ATT Read Request from the attacker to the victim's server."""
        n = len(self.rx.get(4, []))
        with Guard(self.sim, label):
            self.send(4, b'\x0a' + struct.pack('<H', self.ref_char.handle))
            got = self.wait_rx(4, lambda p: p[:1] in (b'\x0b', b'\x01') and (p[:1] == b'\x0b' or p[1:2] == b'\x0a'), n)
        self.sim.probe('reference_requests')
        if got is None:
            exc = next((e[1] for e in reversed(self.sim.delivery_exceptions) if e[0].startswith('N0')), 'none')
            self.sim.violation_once('ref', f'reference-unanswered:{label}:att-read:raised={exc}', 'ATT Read Request after the hostile frames got no answer within 10 s')
        elif got != b'\x0b' + REF:
            self.sim.violation_once('ref', f'reference-answered-wrongly:{label}:att-read', f'got {got.hex()}')


def run_le(case):
    sim = Sim(case['seed'], case.get('profile', 'zero'), slow_node='N0')
    try:
        rig = LeRig(sim, case)
        target = case['target']
        label = target
        frames = [bytes.fromhex(f) for f in case['frames']] if target != 'coc_data' else list(case['frames'])
        try:
            if target == 'coc_data':
                _le_coc_data(sim, rig, case, frames)
            elif target == 'att_client':
                _le_att_client(sim, rig, case, frames)
            elif target == 'att_client_late':
                _le_att_client_late(sim, rig, case, frames)
            elif target == 'att_indicate':
                _le_att_indicate(sim, rig, case, frames)
            else:
                for i, fr in enumerate(frames):
                    if target == 'att_server':
                        process(sim, label, rig.send, 4, fr)
                    elif target == 'smp':
                        process(sim, label, rig.send, 6, fr)
                    elif target == 'le_sig':
                        process(sim, label, rig.send, 5, fr)
                    elif target == 'cid':
                        process(sim, label, rig.send, case['cids'][i % len(case['cids'])], fr)
                    else:
                        from bumble.core import PhysicalTransport
                        ctrl = rig.world[1].controller
                        dest = next(iter(ctrl.le_connections.values())).peer_address
                        process(sim, label, ctrl.link.send_acl_data, ctrl, dest, PhysicalTransport.LE, fr)
                check_recursion(sim, label)
                if target == 'smp':
                    _ref_smp(sim, rig, label)
                elif target == 'le_sig':
                    _ref_le_sig(sim, rig, case, label)
                if target == 'l2cap_raw':
                    # an unfinished fragment may legitimately swallow nothing of the next frame: a new start fragment resets the assembler
                    pass
                if rig.alive(label):
                    rig.ref_att(label)
        except Wedged:
            pass
        check_recursion(sim, label)
        note_exceptions(sim)
        sim.trace.shape(target, tuple(((f[:1].hex(), min(len(f), 40) // 8) if isinstance(f, bytes) else (f[:4], len(f) // 16)) for f in frames))
        return result(sim, nontrivial=sim.probes['hostile_frames_processed'] > 0 and sim.probes['reference_requests'] > 0)
    finally:
        sim.close()


def _ref_smp(sim, rig, label):
    sim.loop.advance(1.0)
    process(sim, label, rig.send, 6, b'\x05\x08')  # Pairing Failed: whatever session the garbage may have started is over
    n = len(rig.rx.get(6, []))
    with Guard(sim, label):
        rig.send(6, bytes([0x01, 0x03, 0x00, 0x01, 0x10, 0x01, 0x01]))
        got = rig.wait_rx(6, lambda p: p[:1] in (b'\x02', b'\x05'), n, vt=10.0)
    sim.probe('reference_requests')
    if got is None:
        exc = next((e[1] for e in reversed(sim.delivery_exceptions) if e[0].startswith('N0')), 'none')
        sim.violation_once('ref-smp', f'reference-unanswered:{label}:pairing-request:raised={exc}', 'a well-formed Pairing Request after the hostile frames got no answer')
    elif got[:1] != b'\x02':
        sim.violation_once('ref-smp', f'reference-answered-wrongly:{label}:pairing-request:failed={got[1:2].hex()}', f'Pairing Request answered {got.hex()}')
    process(sim, label, rig.send, 6, b'\x05\x08')


def _ref_le_sig(sim, rig, case, label):
    n = len(rig.rx.get(5, []))
    ident = 0xF1
    scid = case['ref_scid']
    with Guard(sim, label):
        rig.send(5, bytes([0x14, ident]) + struct.pack('<HHHHHH', 10, 0x80, scid, 64, 32, 3))
        got = rig.wait_rx(5, lambda p: len(p) >= 2 and p[1] == ident and p[0] in (0x15, 0x01), n)
    sim.probe('reference_requests')
    if got is None:
        exc = next((e[1] for e in reversed(sim.delivery_exceptions) if e[0].startswith('N0')), 'none')
        sim.violation_once('ref-sig', f'reference-unanswered:{label}:le-credit-connect:raised={exc}', 'LE Credit Based Connection Request after the hostile frames got no answer')
        return
    ok = got[0] == 0x15 and len(got) == 14 and struct.unpack_from('<H', got, 12)[0] == 0
    if not ok:
        sim.violation_once('ref-sig', f'reference-answered-wrongly:{label}:le-credit-connect', f'got {got.hex()}')


def _le_coc_data(sim, rig, case, frames):
    from bsim.rawpeer import LeCocPeer

    label = 'coc_data'
    coc = LeCocPeer(sim, rig.raw, 256, 64, 8, 'one')
    end = coc.connect(rig.ca.handle, 0x80)
    sim.loop.settle(vt_budget=2.0)
    if not end.open or not rig.coc:
        raise HarnessError('LE CoC to the victim did not open')
    vch = rig.coc[-1]
    vch.sink = lambda data: vch.write(bytes(data)) if data else None  # the victim's application echoes (write() is a stream API: nothing to echo for an empty SDU)

    def echoed(msg, vt=10.0):
        n = len(end.rx_stream)
        sim.call(end.write, msg)
        sim.loop.drive(lambda: msg in bytes(end.rx_stream[n:]), vt_budget=vt, step_budget=300_000)
        return msg in bytes(end.rx_stream[n:])
    if not echoed(b'ping-0'):
        raise HarnessError('echo baseline failed')
    for spec in frames:
        head, _, tail = spec.partition(':')
        if end.tx_credits < 2:
            break  # never send without a credit: that would be a reason for the victim to close the channel
        end.tx_credits -= 1
        process(sim, label, rig.raw.send, rig.ca.handle, end.dcid, bytes.fromhex(head))
        if tail and tail != 'abandon' and end.tx_credits >= 2:
            # the rest of the SDU announced by the previous frame (so that no SDU is left half-sent)
            end.tx_credits -= 1
            process(sim, label, rig.raw.send, rig.ca.handle, end.dcid, bytes.fromhex(tail))
    check_recursion(sim, label)
    sim.loop.settle(vt_budget=2.0)
    if vch.state != vch.State.CONNECTED:
        # an SDU longer than the MTU / the announced length is a reason to close the channel (Core Vol 3 Part A 3.4.3): legitimate
        sim.probe('legitimate_close_in_attack')
        rig.alive(label)
        return
    if any(f.endswith(':abandon') for f in frames):
        # an SDU was left unfinished on purpose: what follows legitimately continues it; the channel is only checked for liveness
        sim.probe('reference_requests')
        rig.alive(label)
        return
    with Guard(sim, label):
        ok = echoed(b'reference-sdu-after-the-attack')
    sim.probe('reference_requests')
    if not ok:
        sim.violation_once('ref', f'reference-unanswered:{label}:echo-over-le-coc:raised={_exc(sim)}', 'a well-formed SDU sent on the open LE credit-based channel after the hostile K-frames was not echoed')
    rig.alive(label)


def _le_att_indicate(sim, rig, case, frames):
    """An indication of the victim's server is awaiting its confirmation while the hostile frames arrive."""
    from bumble import gatt

    label = 'att_indicate'
    srv = rig.world[0].device.gatt_server
    cccd = srv.get_attribute(rig.other.end_group_handle)  # the CCCD that add_service() appended to the characteristic
    if cccd is None or cccd.type != gatt.GATT_CLIENT_CHARACTERISTIC_CONFIGURATION_DESCRIPTOR:
        raise HarnessError('CCCD not found')
    n = len(rig.rx.get(4, []))
    rig.send(4, b'\x12' + struct.pack('<H', cccd.handle) + b'\x02\x00')
    if rig.wait_rx(4, lambda p: p[:1] == b'\x13', n) is None:
        raise HarnessError('subscription failed')
    n = len(rig.rx.get(4, []))
    pending = sim.loop.create_task(srv.indicate_subscribers(rig.other, b'i1', force=True))
    if rig.wait_rx(4, lambda p: p[:1] == b'\x1d', n) is None:
        raise HarnessError('no indication')
    sim.probe('client_request_pending_during_attack')
    for fr in frames:
        process(sim, label, rig.send, 4, fr)
    check_recursion(sim, label)
    if not pending.done():
        process(sim, label, rig.send, 4, b'\x1e')
    sim.loop.drive(pending.done, vt_budget=40.0, step_budget=300_000)
    if not pending.done():
        sim.violation_once('pending', f'pending-request-never-concluded:{label}', 'the indication that was pending during the attack neither completed nor failed within 40 s (GATT timeout is 30 s)')
        pending.cancel()
    elif not pending.cancelled():
        pending.exception()
    sim.loop.settle(vt_budget=1.0)
    if not rig.alive(label):
        return
    n = len(rig.rx.get(4, []))
    with Guard(sim, label):
        t = sim.loop.create_task(srv.indicate_subscribers(rig.other, b'i2', force=True))
        got = rig.wait_rx(4, lambda p: p[:1] == b'\x1d' and p[3:] == b'i2', n, vt=40.0)
        if got is not None:
            sim.call(rig.send, 4, b'\x1e')
            sim.loop.drive(t.done, vt_budget=10.0, step_budget=300_000)
    sim.probe('reference_requests')
    if got is None:
        sim.violation_once('ref', f'reference-unanswered:{label}:second-indication-never-sent:raised={_exc(sim)}', 'an indication issued after the hostile frames was never sent (indication slot still taken?)')
        t.cancel()
    elif not t.done() or t.cancelled() or t.exception() is not None:
        sim.violation_once('ref', f'reference-unanswered:{label}:second-indication-not-concluded', 'the second indication was confirmed but indicate_subscribers() did not return')
        t.cancel()
    rig.ref_att(label)


def _le_att_client_late(sim, rig, case, frames):
    from bumble.device import Peer

    label = 'att_client_late'
    peer = Peer(rig.cv)
    LATE = b'late-answer'
    mode = {'hold': True}
    held = []

    def serve(handle, payload):
        rig.rx.setdefault(4, []).append(payload)
        if payload[:1] == b'\x0a':
            if mode['hold']:
                held.append(payload)
            else:
                rig.send(4, b'\x0b' + REF)
        elif payload[:1] == b'\x02':
            rig.send(4, b'\x03\x17\x00')
        elif payload and payload[0] not in (0x1E, 0x01, 0x03, 0x0B, 0x1B, 0x1D) and payload[0] % 2 == 0 and payload[0] < 0x40:
            rig.send(4, bytes([0x01, payload[0], 0, 0, 0x06]))
    rig.raw.handlers[4] = serve
    pending = sim.loop.create_task(peer.gatt_client.read_value(3))
    sim.loop.drive(lambda: bool(held) or pending.done(), vt_budget=5.0, step_budget=100_000)
    if not held:
        raise HarnessError('the pending read never reached the peer')
    sim.probe('client_request_pending_during_attack')
    for fr in frames:
        process(sim, label, rig.send, 4, fr)
    check_recursion(sim, label)
    mode['hold'] = False
    # the peer answers the pending request (once, late); the victim's next request follows immediately
    with Guard(sim, label):
        sim.call(rig.send, 4, b'\x0b' + LATE)
        if pending.done():
            # the stray responses concluded (failed) the pending read: the next request is issued before the late answer arrives
            nxt = sim.loop.create_task(peer.gatt_client.read_value(3))
        else:
            sim.loop.drive(pending.done, vt_budget=40.0, step_budget=300_000)
            nxt = sim.loop.create_task(peer.gatt_client.read_value(3))
        sim.loop.drive(nxt.done, vt_budget=40.0, step_budget=300_000)
    sim.probe('reference_requests')
    if not pending.done():
        sim.violation_once('pending', f'pending-request-never-concluded:{label}', 'the read that was pending during the attack neither returned nor failed within 40 s')
        pending.cancel()
    elif not pending.cancelled() and pending.exception() is None and bytes(pending.result()) != LATE:
        sim.violation_once('pending', f'pending-request-answered-wrongly:{label}', f'the pending read returned {bytes(pending.result())!r}, the peer answered {LATE!r}')
    elif not pending.cancelled():
        pending.exception()
    if not nxt.done() or nxt.cancelled() or nxt.exception() is not None:
        why = 'pending' if not nxt.done() else ('cancelled' if nxt.cancelled() else type(nxt.exception()).__name__)
        sim.violation_once('ref', f'reference-unanswered:{label}:client-read:{why}', f'read_value after the stray responses: {why}')
        if not nxt.done():
            nxt.cancel()
    elif bytes(nxt.result()) != REF:
        sim.violation_once('ref', f'reference-answered-wrongly:{label}:client-read', f'the next read returned {bytes(nxt.result())!r} (the answer to the previous request) instead of {REF!r}')
    rig.alive(label)


def _le_att_client(sim, rig, case, frames):
    from bumble.device import Peer

    label = 'att_client'
    peer = Peer(rig.cv)
    mode = {'hold': False}
    held = []

    def serve(handle, payload):
        rig.rx.setdefault(4, []).append(payload)
        if payload[:1] == b'\x0a':
            if mode['hold']:
                held.append(payload)
            else:
                rig.send(4, b'\x0b' + REF)
        elif payload[:1] == b'\x02':
            rig.send(4, b'\x03\x17\x00')
        elif payload and payload[0] not in (0x1E, 0x01, 0x03, 0x0B, 0x1B, 0x1D) and payload[0] % 2 == 0 and payload[0] < 0x40:
            rig.send(4, bytes([0x01, payload[0], 0, 0, 0x06]))
    rig.raw.handlers[4] = serve
    pending = None
    if case.get('pending'):
        mode['hold'] = True
        pending = sim.loop.create_task(peer.gatt_client.read_value(3))
        sim.loop.settle(vt_budget=1.0)
        sim.probe('client_request_pending_during_attack')
    for fr in frames:
        process(sim, label, rig.send, 4, fr)
    check_recursion(sim, label)
    mode['hold'] = False
    if pending is not None:
        if held and not pending.done():
            process(sim, label, rig.send, 4, b'\x0b' + REF)
        st = sim.loop.drive(pending.done, vt_budget=40.0, step_budget=300_000)
        if not pending.done():
            sim.violation_once('pending', f'pending-request-never-concluded:{label}', 'the read that was pending during the attack neither returned nor failed within 40 s (GATT timeout is 30 s)')
            pending.cancel()
        sim.loop.settle(vt_budget=1.0)
    if not rig.alive(label):
        return
    with Guard(sim, label):
        st, t = sim.run(peer.gatt_client.read_value(3), 40.0)
    sim.probe('reference_requests')
    if st != 'done' or t.cancelled() or t.exception() is not None:
        why = st if st != 'done' else ('cancelled' if t.cancelled() else type(t.exception()).__name__)
        sim.violation_once('ref', f'reference-unanswered:{label}:client-read:{why}', f'read_value after the hostile frames: {why}')
        if not t.done():
            t.cancel()
    elif bytes(t.result()) != REF:
        sim.violation_once('ref', f'reference-answered-wrongly:{label}:client-read', f'got {bytes(t.result()).hex()}')


# ====================================================================================== classic: signalling + dynamic channels
CL_TARGETS = ['cl_sig', 'sdp', 'rfcomm', 'hfp_ag', 'hfp_hf', 'avdtp', 'avctp']


def _sdp_special(rng):
    return _nested_sdp(rng.choice([20, 60, 126, 300, 640]), rng.random() < 0.7)


def _avdtp_special(rng):
    # fragment-flag permutations: (label, packet type, message type) with signal/NOSP bytes
    out = bytearray()
    label = rng.randrange(16)
    pt = rng.randrange(4)
    mt = rng.randrange(4)
    out.append(label << 4 | pt << 2 | mt)
    if pt == 1:
        out.append(rng.choice([0, 1, 2, 3, 255]))
    if pt in (0, 1):
        out.append(rng.choice([1, 2, 3, 4, 0x3F, 0]))
    out += bytes(rng.randrange(256) for _ in range(rng.choice([0, 1, 8, 40])))
    return bytes(out)


def _avctp_special(rng):
    out = bytearray()
    label = rng.randrange(16)
    pt = rng.randrange(4)
    out.append(label << 4 | pt << 2 | rng.randrange(4))
    if pt == 1:
        out.append(rng.choice([0, 1, 2, 3, 255]))
    if pt in (0, 1):
        out += rng.choice([b'\x11\x0e', b'\x00\x00', b'\xff\xff'])
    out += bytes(rng.randrange(256) for _ in range(rng.choice([0, 1, 8, 40])))
    return bytes(out)


def _at_special(rng):
    alphabet = 'AT+=?,;()"\r\n: 0123456789xBRSFCIND\x00\xff'
    return ''.join(rng.choice(alphabet) for _ in range(rng.choice([1, 5, 20, 80, 400]))).encode('latin-1')


def gen_classic(rng, tier, seed):
    target = rng.choice(CL_TARGETS)
    case = {'target': target, 'profile': rng.choice(['zero', 'zero', 'lan', 'radio', 'burst']), '_lists': ['frames']}
    if target == 'cl_sig':
        case['frames'] = _frames(rng, CL_SIG)
    elif target == 'sdp':
        case['frames'] = _frames(rng, SDP, 2000, _sdp_special)
    elif target == 'rfcomm':
        case['frames'] = _frames(rng, RFCOMM_FR, 200)
        case['degenerate_dlc'] = rng.choice([None, None, 0, 0, 1, 4, 5, 6])
    elif target == 'hfp_ag':
        case['frames'] = _frames(rng, AT_TO_AG, 900, _at_special)
    elif target == 'hfp_hf':
        case['frames'] = _frames(rng, AT_TO_HF, 900, _at_special)
        case['pending'] = rng.random() < 0.4
        case['gather'] = target == 'hfp_hf' and rng.random() < 0.5
    elif target == 'avdtp':
        case['frames'] = _frames(rng, AVDTP, 600, _avdtp_special)
        case['stateful_prefix'] = rng.random() < 0.4
    else:
        case['frames'] = _frames(rng, AVCTP, 600, _avctp_special)
    return case


async def _mk(cls, *args, **kw):
    return cls(*args, **kw)


def _exc(sim):
    return next((e[1] for e in reversed(sim.delivery_exceptions) if e[0].startswith('N0')), 'none')


def run_classic(case):
    from props.c20 import _classic

    sim = Sim(case['seed'], case.get('profile', 'zero'), slow_node='N0')
    try:
        # attacker N1 connects to the victim N0
        world = World(sim, 2, classic=True)
        world.power_on()
        got = []
        world[0].device.once('connection', got.append)
        ca = sim.must(world[1].device.connect(world[0].controller.public_address, transport=0), 'classic connect')
        sim.loop.drive(lambda: bool(got), 10.0)
        sim.loop.settle()
        if not got:
            raise HarnessError('victim never saw the BR/EDR connection')
        cv = got[0]
        target = case['target']
        frames = [bytes.fromhex(f) for f in case['frames']]
        fn = {'cl_sig': _cl_sig, 'sdp': _cl_sdp, 'rfcomm': _cl_rfcomm, 'hfp_ag': _cl_hfp_ag, 'hfp_hf': _cl_hfp_hf, 'avdtp': _cl_avdtp, 'avctp': _cl_avctp}[target]
        try:
            fn(sim, world, ca, cv, case, frames)
            check_recursion(sim, target)
            v = world[0]
            if v.device.connections.get(cv.handle) is not cv or cv.handle not in v.host.connections:
                sim.violation_once('gone', f'connection-dropped:{target}', 'the ACL connection is gone although no disconnect was sent')
        except Wedged:
            pass
        check_recursion(sim, target)
        note_exceptions(sim)
        sim.trace.shape(target, tuple(((f[:1].hex(), min(len(f), 40) // 8) if isinstance(f, bytes) else (f[:4], len(f) // 16)) for f in frames))
        return result(sim, nontrivial=sim.probes['hostile_frames_processed'] > 0 and sim.probes['reference_requests'] > 0)
    finally:
        sim.close()


def _cl_sig(sim, world, ca, cv, case, frames):
    from bsim.l2tap import L2capTap

    label = 'cl_sig'
    seen = []
    L2capTap(sim, world[1], lambda direction, handle, cid, payload: seen.append(bytes(payload)) if direction == 'in' and cid == 1 else None)
    host = world[1].host
    for fr in frames:
        process(sim, label, host.send_l2cap_pdu, ca.handle, 1, fr)
    check_recursion(sim, label)
    n = len(seen)
    data = b'echo-\x99\x98'
    with Guard(sim, label):
        sim.call(host.send_l2cap_pdu, ca.handle, 1, bytes([0x08, 0xF2]) + struct.pack('<H', len(data)) + data)
        want = bytes([0x09, 0xF2]) + struct.pack('<H', len(data)) + data
        sim.loop.drive(lambda: any(want in p for p in seen[n:]), vt_budget=10.0, step_budget=300_000)
    sim.probe('reference_requests')
    if not any(want in p for p in seen[n:]):
        sim.violation_once('ref', f'reference-unanswered:{label}:echo:raised={_exc(sim)}', 'L2CAP Echo Request after the hostile frames got no Echo Response')


def _cl_sdp(sim, world, ca, cv, case, frames):
    from bumble import core, sdp

    label = 'sdp'
    world[0].device.sdp_service_records = {0x10001 + i: [sdp.ServiceAttribute(0, sdp.DataElement.unsigned_integer_32(0x10001 + i)),
                                                         sdp.ServiceAttribute(1, sdp.DataElement.sequence([sdp.DataElement.uuid(core.UUID('1101'))])),
                                                         sdp.ServiceAttribute(0x100, sdp.DataElement.text_string(b'svc%d' % i))] for i in range(3)}
    cl = sdp.Client(ca)
    sim.must(cl.connect(), 'sdp connect')

    async def ref():
        r = await cl.search_attributes([core.UUID('1101')], [(0, 0xFFFF)])
        return [[(a.id, bytes(a.value)) for a in rec] for rec in r]
    base = sim.must(ref(), 'sdp baseline')
    if len(base) != 3:
        raise HarnessError(f'sdp baseline {base}')
    for fr in frames:
        if len(fr) > cl.channel.peer_mtu:
            continue
        process(sim, label, cl.channel.write, fr)
    check_recursion(sim, label)
    sim.loop.settle(vt_budget=2.0)
    with Guard(sim, label):
        st, t = sim.run(ref(), 30.0)
    sim.probe('reference_requests')
    if st != 'done' or t.cancelled() or t.exception() is not None:
        why = st if st != 'done' else ('cancelled' if t.cancelled() else type(t.exception()).__name__)
        sim.violation_once('ref', f'reference-unanswered:{label}:search-attributes:{why}:raised={_exc(sim)}', f'SDP ServiceSearchAttribute after the hostile frames: {why}')
        if not t.done():
            t.cancel()
    elif t.result() != base:
        sim.violation_once('ref', f'reference-answered-wrongly:{label}:search-attributes', f'{len(t.result())} records instead of 3')


def _rfcomm_link(sim, world, ca):
    from bumble import rfcomm
    acc = []

    async def mk():
        srv = rfcomm.Server(world[0].device)
        srv.listen(acc.append, channel=1, max_frame_size=200, initial_credits=7)
        srv.listen(acc2.append, channel=2, max_frame_size=200, initial_credits=7)
        return srv
    acc2 = []
    sim.must(mk(), 'rfcomm server')
    client = rfcomm.Client(ca)
    mux = sim.must(client.start(), 'mux')
    mux._verif_acc2 = acc2
    da = sim.must(mux.open_dlc(1, max_frame_size=200, initial_credits=7), 'dlc')
    sim.loop.settle()
    if not acc:
        raise HarnessError('no acceptor DLC')
    return mux, da, acc[0]


def _crc8(data):
    c = 0xFF
    for b in data:
        c ^= b
        for _ in range(8):
            c = (c >> 1) ^ 0xE0 if c & 1 else c >> 1
    return 0xFF - c


def _rfcomm_close(fr: bytes) -> bool:
    """FCS-valid SABM / DISC / DM: the peer legitimately (re)opens or closes a DLC or the multiplexer."""
    if len(fr) < 4:
        return False
    typ = fr[1] & 0xEF
    if typ in (0xEF, 0xFF) and fr[0] >> 2 == 0:
        # UIH on DLCI 0: a multiplexer control message. PN (re-negotiation of a DLC), MSC / FCoff / FCon (flow control) and CLD are
        # well-formed requests of the peer that legitimately stop or replace the data flow of a DLC.
        hdr = 3 if fr[2] & 1 else 4
        if len(fr) < hdr + 2 or fr[-1] != _crc8(fr[:2]):
            return False
        return fr[hdr] >> 2 in (0x20, 0x38, 0x28, 0x18, 0x30)
    if typ not in (0x2F, 0x43, 0x0F):
        return False
    if fr[2] & 1:
        hdr, ln = 3, fr[2] >> 1
    else:
        hdr, ln = 4, (fr[2] >> 1) | (fr[3] << 7)
    if len(fr) < hdr + ln + 1:
        return False
    # the FCS follows the information field; anything after it is ignored by a receiver
    return fr[hdr + ln] == _crc8(fr[:hdr])


def _cl_rfcomm(sim, world, ca, cv, case, frames):
    label = 'rfcomm'
    mux, da, dv = _rfcomm_link(sim, world, ca)
    dv.sink = lambda data: dv.write(bytes(data))
    got = bytearray()
    da.sink = lambda data: got.extend(data)
    legit_close = False
    mfs = case.get('degenerate_dlc')
    if mfs is not None:
        # a second data link whose parameter negotiation proposes a degenerate frame size; the victim application echoes on it
        t2 = sim.loop.create_task(mux.open_dlc(2, max_frame_size=mfs, initial_credits=7))
        sim.loop.drive(t2.done, vt_budget=10.0, step_budget=300_000)
        if t2.done() and not t2.cancelled() and t2.exception() is None and mux._verif_acc2:
            d2, v2 = t2.result(), mux._verif_acc2[0]
            v2.sink = lambda data: v2.write(bytes(data))
            sim.probe('data_link_with_degenerate_frame_size')
            process(sim, label, d2.write, b'hello over a strange link')
        elif not t2.done():
            t2.cancel()
    for fr in frames:
        if _rfcomm_close(fr):
            legit_close = True
        process(sim, label, mux.l2cap_channel.write, fr)
    check_recursion(sim, label)
    if legit_close:
        sim.probe('legitimate_close_in_attack')
        return
    n = len(got)
    ping = b'ping-\x11\x22\x33'
    with Guard(sim, label):
        sim.call(da.write, ping)
        sim.loop.drive(lambda: ping in bytes(got[n:]), vt_budget=10.0, step_budget=300_000)
    sim.probe('reference_requests')
    if ping not in bytes(got[n:]):
        sim.violation_once('ref', f'reference-unanswered:{label}:echo-over-dlc:raised={_exc(sim)}', 'data written to the open DLC after the hostile frames was not echoed by the victim application')


def _ag_cfg(hfp):
    inds = [hfp.AgIndicatorState.call(), hfp.AgIndicatorState.callsetup(), hfp.AgIndicatorState.callheld(), hfp.AgIndicatorState.service(),
            hfp.AgIndicatorState.signal(), hfp.AgIndicatorState.roam(), hfp.AgIndicatorState.battchg()]
    return hfp.AgConfiguration(supported_ag_features=[hfp.AgFeature.THREE_WAY_CALLING, hfp.AgFeature.ENHANCED_CALL_STATUS, hfp.AgFeature.CODEC_NEGOTIATION, hfp.AgFeature.HF_INDICATORS],
                               supported_ag_indicators=inds, supported_hf_indicators=[hfp.HfIndicator(1), hfp.HfIndicator(2)],
                               supported_ag_call_hold_operations=[hfp.CallHoldOperation('1'), hfp.CallHoldOperation('2')], supported_audio_codecs=[hfp.AudioCodec(1), hfp.AudioCodec(2)])


def _cl_hfp_ag(sim, world, ca, cv, case, frames):
    from bumble import hfp

    label = 'hfp_ag'
    mux, da, dv = _rfcomm_link(sim, world, ca)
    sim.must(_mk(hfp.AgProtocol, dv, _ag_cfg(hfp)), 'ag')
    out = bytearray()
    da.sink = lambda data: out.extend(data)

    def ask(line):
        n = len(out)
        sim.call(da.write, line)
        sim.loop.drive(lambda: b'\r\nOK\r\n' in bytes(out[n:]) or b'ERROR' in bytes(out[n:]), vt_budget=5.0, step_budget=300_000)
        sim.loop.settle(vt_budget=1.0)
        return bytes(out[n:])
    base = ask(b'AT+CIND?\r')
    if b'+CIND:' not in base or b'\r\nOK\r\n' not in base:
        raise HarnessError(f'AG baseline {base!r}')
    for fr in frames:
        process(sim, label, da.write, fr)
    check_recursion(sim, label)
    # terminate whatever partial line the attack left behind; its verdict does not matter
    process(sim, label, da.write, b'\r')
    sim.loop.settle(vt_budget=2.0)
    with Guard(sim, label):
        after = ask(b'AT+CIND?\r')
    sim.probe('reference_requests')
    if after != base:
        kind = 'unanswered' if not after else 'answered-wrongly'
        sim.violation_once('ref', f'reference-{kind}:{label}:AT+CIND?:raised={_exc(sim)}', f'AT+CIND? after the hostile lines: {after!r} instead of {base!r}')


def _cl_hfp_hf(sim, world, ca, cv, case, frames):
    from bumble import hfp

    label = 'hfp_hf'
    mux, da, dv = _rfcomm_link(sim, world, ca)
    cfg = hfp.HfConfiguration(supported_hf_features=[hfp.HfFeature.THREE_WAY_CALLING, hfp.HfFeature.CODEC_NEGOTIATION], supported_hf_indicators=[hfp.HfIndicator(1)],
                              supported_audio_codecs=[hfp.AudioCodec(1), hfp.AudioCodec(2)])
    hf = sim.must(_mk(hfp.HfProtocol, dv, cfg), 'hf')
    inbox = bytearray()
    mode = {'answer': True}

    def on_data(data):
        inbox.extend(data)
        while b'\r' in inbox:
            line, _, rest = bytes(inbox).partition(b'\r')
            del inbox[:len(line) + 1]
            if mode['answer']:
                if line.strip().startswith(b'AT+COPS?'):
                    da.write(b'\r\n+COPS: 0,0,"sim"\r\n\r\nOK\r\n')
                elif mode.get('dup_next'):
                    # a gateway that sends the final result code twice, in one burst
                    mode['dup_next'] = False
                    sim.fault('final_result_code_sent_twice')
                    da.write(b'\r\nOK\r\n\r\nOK\r\n')
                else:
                    da.write(b'\r\nOK\r\n')
    da.sink = on_data

    async def ref():
        await hf.execute_command('AT+NREC=0', timeout=5.0)
        return True
    sim.must(ref(), 'hf baseline')
    pending = None
    if case.get('pending'):
        mode['answer'] = False
        pending = sim.loop.create_task(hf.execute_command('AT+VGS=5', timeout=5.0))
        sim.loop.settle(vt_budget=1.0)
        sim.probe('client_request_pending_during_attack')
    for fr in frames:
        process(sim, label, da.write, fr)
    check_recursion(sim, label)
    mode['answer'] = True
    # close whatever partial response the attack left behind
    process(sim, label, da.write, b'\r\n')
    if pending is not None:
        sim.loop.drive(pending.done, vt_budget=12.0, step_budget=300_000)
        if not pending.done():
            sim.violation_once('pending', f'pending-request-never-concluded:{label}', 'the command that was pending during the attack neither returned nor failed although its timeout is 5 s')
            pending.cancel()
        elif not pending.cancelled():
            pending.exception()
    sim.loop.settle(vt_budget=2.0)
    with Guard(sim, label):
        st, t = sim.run(ref(), 20.0)
    sim.probe('reference_requests')
    if st != 'done' or t.cancelled() or t.exception() is not None:
        why = st if st != 'done' else ('cancelled' if t.cancelled() else type(t.exception()).__name__)
        sim.violation_once('ref', f'reference-unanswered:{label}:AT+NREC:{why}:raised={_exc(sim)}', f'a command issued by the HF after the hostile input (peer answers OK): {why}')
        if not t.done():
            t.cancel()
        return
    # ---- several commands queued at once at the HF while the gateway duplicates the final result code of the first: the extra
    # code belongs to no command, and each of the commands behind it is answered with its own response
    if case.get('gather') and not sim.violations:
        mode['dup_next'] = True

        async def one(cmd, single):
            if single:
                r = await hf.execute_command(cmd, timeout=5.0, response_type=hfp.AtResponseType.SINGLE)
                return (r.code, [p.decode() if isinstance(p, (bytes, bytearray)) else str(p) for p in r.parameters])
            return await hf.execute_command(cmd, timeout=5.0)
        ts = [sim.loop.create_task(one('AT+VGS=5', False)), sim.loop.create_task(one('AT+COPS?', True)), sim.loop.create_task(one('AT+VGM=2', False)),
              sim.loop.create_task(one('AT+COPS?', True))]
        st = sim.loop.drive(lambda: all(t.done() for t in ts), vt_budget=40.0, step_budget=600_000)
        sim.probe('commands_queued_behind_a_duplicated_final_result')
        for k, t in enumerate(ts):
            if not t.done():
                sim.violation_once('gather', f'queued-command-never-concluded:{label}', f'command {k + 1} of 4')
                t.cancel()
            elif t.cancelled() or t.exception() is not None:
                why = 'cancelled' if t.cancelled() else type(t.exception()).__name__
                sim.violation_once('gather', f'queued-command-answered-wrongly:{label}:{why}', f'command {k + 1} of 4 queued behind a duplicated OK: {why}')
            elif k in (1, 3) and (t.result()[0] != '+COPS' or '"sim"' not in ''.join(t.result()[1]) and 'sim' not in ''.join(t.result()[1])):
                sim.violation_once('gather', f'queued-command-answered-wrongly:{label}:content', f'AT+COPS? returned {t.result()}')


def _cl_avdtp(sim, world, ca, cv, case, frames):
    from bumble import a2dp, avdtp
    from props.c19 import _codec

    label = 'avdtp'
    listener = avdtp.Listener.for_device(world[0].device)
    listener.on('connection', lambda server: server.add_sink(_codec(a2dp, avdtp, False)))
    client = sim.must(avdtp.Protocol.connect(ca), 'avdtp')
    sim.loop.settle()

    async def ref():
        eps = list(await client.discover_remote_endpoints())
        # whatever the hostile frames did to the end-point (they may have configured or opened it), an Abort frees it, and it
        # can then be configured like a fresh one
        try:
            await client.abort(eps[0].seid)
        except Exception:
            pass
        await asyncio.sleep(0.5)
        source = client.add_source(_codec(a2dp, avdtp, True), None)  # (a fresh local end-point each time)
        stream = await client.create_stream(source, eps[0])
        await stream.remote_endpoint.abort()
        await asyncio.sleep(0.5)
        return sorted(e.seid for e in eps)
    base = sim.must(ref(), 'avdtp baseline')
    if not base:
        raise HarnessError('no endpoints')
    if case.get('stateful_prefix'):
        # a peer that configures and opens the stream but never connects the transport channel, then turns hostile
        frames = [bytes.fromhex('20030404010007060000ffff0235'), bytes.fromhex('500604')] + list(frames)
        sim.probe('stream_opened_without_transport_before_the_attack')
    for fr in frames:
        process(sim, label, client.l2cap_channel.write, fr)
    check_recursion(sim, label)
    sim.loop.settle(vt_budget=2.0)
    with Guard(sim, label):
        st, t = sim.run(ref(), 30.0)
    sim.probe('reference_requests')
    if st != 'done' or t.cancelled() or t.exception() is not None:
        why = st if st != 'done' else ('cancelled' if t.cancelled() else type(t.exception()).__name__)
        sim.violation_once('ref', f'reference-unanswered:{label}:discover+configure:{why}:raised={_exc(sim)}', f'AVDTP Discover, Abort, Set Configuration after the hostile frames: {why}')
        if not t.done():
            t.cancel()
    elif t.result() != base:
        sim.violation_once('ref', f'reference-answered-wrongly:{label}:discover', f'{t.result()} instead of {base}')


def _cl_avctp(sim, world, ca, cv, case, frames):
    from bumble import avctp, l2cap

    label = 'avctp'
    accepted = []
    world[0].device.create_l2cap_server(l2cap.ClassicChannelSpec(psm=avctp.AVCTP_PSM, mtu=2048), handler=accepted.append)
    ch = sim.must(ca.create_l2cap_channel(spec=l2cap.ClassicChannelSpec(psm=avctp.AVCTP_PSM, mtu=2048)), 'l2cap')
    sim.loop.settle()
    proto = sim.must(_mk(avctp.Protocol, accepted[0]), 'avctp')
    PID = 0x110E
    proto.register_command_handler(PID, lambda tl, payload: proto.send_response(tl, PID, b'pong' + bytes(payload)))
    proto.register_response_handler(PID, lambda tl, payload: None)
    got = []
    ch.sink = lambda data: got.append(bytes(data))

    def ref(tl):
        n = len(got)
        want = bytes([tl << 4 | 0x02]) + struct.pack('>H', PID) + b'pong' + b'ping'
        sim.call(ch.write, bytes([tl << 4]) + struct.pack('>H', PID) + b'ping')
        sim.loop.drive(lambda: want in got[n:], vt_budget=10.0, step_budget=300_000)
        return want in got[n:]
    if not ref(1):
        raise HarnessError('avctp baseline')
    for fr in frames:
        process(sim, label, ch.write, fr)
    check_recursion(sim, label)
    sim.loop.settle(vt_budget=2.0)
    with Guard(sim, label):
        ok = ref(9)
    sim.probe('reference_requests')
    if not ok:
        sim.violation_once('ref', f'reference-unanswered:{label}:single-packet-command:raised={_exc(sim)}', 'a single-packet AVCTP command for a registered PID after the hostile frames was not answered')


# ====================================================================================== HCI: the controller is hostile
def gen_hci(rng, tier, seed):
    from bsim import genhci
    from bumble import hci

    # registries are filled when modules are imported; import the lazily loaded ones so that generation does not depend on history
    import bumble.drivers.intel  # noqa: F401
    import bumble.drivers.rtk  # noqa: F401
    import bumble.vendor.android.hci  # noqa: F401
    import bumble.vendor.zephyr.hci  # noqa: F401

    frames = []
    classes = sorted(hci.HCI_Event.event_classes.items()) if hasattr(hci.HCI_Event, 'event_classes') else []
    meta = sorted(getattr(hci.HCI_LE_Meta_Event, 'subevent_classes', {}).items())
    for _ in range(rng.randint(1, 14)):
        r = rng.random()
        if r < 0.45 and (classes or meta):
            # a well-formed event of a random class, then possibly mutated
            try:
                if meta and rng.random() < 0.45:
                    sub, cls = rng.choice(meta)
                    params = bytes([sub]) + genhci.gen_params(cls, rng, {'connection_handle': rng.choice([1, 1, 2, 0x0EFF, 0xFFFF])})
                    code = 0x3E
                else:
                    code, cls = rng.choice(classes)
                    params = genhci.gen_params(cls, rng, {'connection_handle': rng.choice([1, 1, 2, 0x0EFF, 0xFFFF])})
            except Exception:
                params, code = bytes(rng.randrange(256) for _ in range(rng.randrange(12))), rng.randrange(256)
            pkt = bytes([0x04, code, len(params) & 0xFF]) + params
            m = rng.random()
            b = bytearray(pkt)
            if m < 0.3:
                pass
            elif m < 0.5:
                b = b[:rng.randrange(1, len(b) + 1)]
            elif m < 0.7:
                i = rng.randrange(len(b))
                b[i] ^= 1 << rng.randrange(8)
            elif m < 0.85:
                b[2] = rng.choice([0, 1, 0xFF, (len(params) + 1) & 0xFF, max(0, len(params) - 1)])
            else:
                b += bytes(rng.randrange(256) for _ in range(rng.choice([1, 4, 30])))
            frames.append(bytes(b).hex())
        elif r < 0.5:
            # flow-control-only events (opcode 0x0000), stray replies to commands nobody sent, completed-packets reports for nobody
            frames.append(rng.choice(['040e03010000', '040e03000000', '040e03ff0000', '040f0400010000', '040f0400000000', '040f04ff050000',
                                      '040e0401030c00', '040f0400011d04', '0413050100000100', '04130501ff0fffff', '041309020100010002000100', '0410' + '01aa',
                                      '040e0a01091000a0a0a0a0a0a0', '040e03010910', '041a00', '0401' + '0100',
                                      '0405040c010013', '0405040c020013', '04050412010016', '0405041f01ff08']))  # Disconnection Complete reporting a FAILURE
        elif r < 0.6:
            # ACL packets for the live handle with fragment-flag / length games
            handle = rng.choice([1, 1, 1, 2, 0x0EFF])
            pb = rng.randrange(4)
            bc = rng.choice([0, 0, 1, 2, 3])
            payload = hostile(rng, ATT_TO_CLIENT + LE_SIG + SMP + ATT_TO_SERVER, 300)  # the peer here is a real stack: its answers to the victim's answers count too
            ln = rng.choice([len(payload), len(payload), 0, len(payload) + 5, 0xFFFF])
            data = (struct.pack('<HH', ln, rng.choice([4, 4, 5, 6, 0x40])) + payload) if pb in (0, 2) or rng.random() < 0.3 else payload
            if rng.random() < 0.15:
                data = data[:rng.randrange(4)]
            hl = rng.choice([len(data), len(data), len(data) + 1, 0, 0xFFFF])
            frames.append((bytes([0x02]) + struct.pack('<HH', handle | pb << 12 | bc << 14, hl) + data).hex())
        elif r < 0.66:
            # a stray but correctly framed protocol PDU on a fixed channel of the live connection (valid or lightly damaged):
            # the peer here is a real stack, so its answers to the victim's answers are part of the run
            corpus, cid = rng.choice([(SMP, 6), (SMP, 6), (ATT_TO_SERVER, 4), (ATT_TO_CLIENT, 4), (LE_SIG, 5)])
            payload = rng.choice(corpus) if rng.random() < 0.5 else hostile(rng, corpus, 80)
            data = struct.pack('<HH', len(payload), cid) + payload
            frames.append((bytes([0x02]) + struct.pack('<HH', 1 | rng.choice([0, 2]) << 12, len(data)) + data).hex())
        elif r < 0.7:
            n = rng.choice([0, 1, 3, 4, 12, 40])
            frames.append((bytes([0x05]) + bytes(rng.randrange(256) for _ in range(n))).hex())
        elif r < 0.78:
            n = rng.choice([0, 1, 3, 4, 12])
            frames.append((bytes([0x03]) + bytes(rng.randrange(256) for _ in range(n))).hex())
        elif r < 0.9:
            n = rng.choice([0, 1, 2, 3, 8, 40, 255])
            frames.append((bytes([0x04]) + bytes(rng.randrange(256) for _ in range(n))).hex())
        else:
            n = rng.choice([0, 1, 2, 8])
            frames.append((bytes([rng.choice([0x00, 0x01, 0x06, 0x07, 0x7F, 0xFF])]) + bytes(rng.randrange(256) for _ in range(n))).hex())
    return {'frames': frames, 'victim_central': rng.random() < 0.5, 'pending_cmd': rng.random() < 0.3, 'profile': rng.choice(['zero', 'zero', 'lan', 'burst']), '_lists': ['frames'],
            'via_stream': rng.random() < 0.3}


def _stream_safe(fr: bytes) -> bool:
    """True if the chunk is exactly one packet by its own length field, or starts with a byte that is no packet type."""
    if not fr:
        return True
    t = fr[0]
    if t not in (1, 2, 3, 4, 5):
        return True
    try:
        if t == 1:
            return len(fr) >= 4 and len(fr) == 4 + fr[3]
        if t == 2:
            return len(fr) >= 5 and len(fr) == 5 + struct.unpack_from('<H', fr, 3)[0]
        if t == 3:
            return len(fr) >= 4 and len(fr) == 4 + fr[3]
        if t == 4:
            return len(fr) >= 3 and len(fr) == 3 + fr[2]
        return len(fr) >= 5 and len(fr) == 5 + (struct.unpack_from('<H', fr, 3)[0] & 0x3FFF)
    except struct.error:
        return False


DISRUPTIVE = ('Disconnection_Complete', 'Connection_Complete', 'Enhanced_Connection_Complete', 'Hardware_Error')


def _legit_disruption(pkt: bytes, handle: int) -> bool:
    """A well-formed event that legitimately ends or replaces the live connection (or announces a controller failure)."""
    from bumble import hci
    if not pkt or pkt[0] != 0x04:
        return False
    try:
        ev = hci.HCI_Packet.from_bytes(pkt)
    except Exception:
        return False
    name = type(ev).__name__
    if not any(d in name for d in DISRUPTIVE):
        return False
    if 'Hardware_Error' in name:
        return True
    if getattr(ev, 'connection_handle', None) != handle:
        return False
    # only a SUCCESSFUL completion ends or replaces the connection; a Disconnection Complete that reports a failure does not
    return getattr(ev, 'status', 0) == 0


def run_hci(case):
    from bumble import hci
    from bumble.device import Peer
    from bumble.gatt import Characteristic, CharacteristicValue, Service

    sim = Sim(case['seed'], case.get('profile', 'zero'), slow_node='N0')
    label = 'hci'
    try:
        world = World(sim, 2)
        srv = world[1].device
        P = Characteristic.Properties
        ref_char = Characteristic('F4A1', P.READ, Characteristic.READABLE, CharacteristicValue(read=lambda connection: REF))
        srv.add_service(Service('F3A0', [ref_char]))
        world.power_on()
        if case['victim_central']:
            cv, _ = world.connect_le(0, 1)
        else:
            _, cv = world.connect_le(1, 0)
        sim.loop.settle(vt_budget=1.0)
        victim = world[0]
        peer = Peer(cv)

        async def ref():
            # three commands issued at once (they have to be serialised by the host) and a GATT read
            rs = await asyncio.gather(victim.host.send_command(hci.HCI_Read_BD_ADDR_Command()),
                                      victim.host.send_command(hci.HCI_Read_Local_Version_Information_Command()),
                                      victim.host.send_command(hci.HCI_Read_BD_ADDR_Command()), return_exceptions=True)
            bad = [type(x).__name__ for x in rs if isinstance(x, BaseException)]
            if bad:
                raise RuntimeError(f'concurrent commands failed: {bad}')
            v = await peer.gatt_client.read_value(ref_char.handle)
            return rs[0].return_parameters.status, bytes(v)
        base = sim.must(ref(), 'hci baseline')
        if base != (0, REF):
            raise HarnessError(f'baseline {base}')
        frames = [bytes.fromhex(f) for f in case['frames']]
        disrupted = False
        pending = None
        if case.get('via_stream'):
            # the controller's bytes reach the host the way they do on a serial line / TCP / UNIX socket: through the stream
            # transports' protocol object and its push parser (a hostile "packet" is then just a chunk of bytes)
            from bumble.transport import common as _tc
            src = sim.call(_tc.StreamPacketSource)
            src.set_packet_sink(victim.host)
            victim.c2h.deliver = src.data_received
            sim.probe('controller_bytes_through_the_stream_parser')
        try:
            if case.get('pending_cmd'):
                # a command of the victim is on its way to the controller (held back) while the hostile packets arrive
                victim.h2c.stall(0.05)
                pending = sim.loop.create_task(victim.host.send_command(hci.HCI_Read_BD_ADDR_Command()))
                sim.loop.settle(vt_budget=0.001)
                sim.probe('client_request_pending_during_attack')
            for fr in frames:
                if case.get('via_stream') and not _stream_safe(fr):
                    # on a byte stream a packet whose length field promises more (or fewer) bytes than follow desynchronises
                    # every framer for good: that is the nature of the transport, not a reaction of the stack to be judged
                    sim.probe('hostile_chunk_not_fed_to_the_stream_(would_desynchronise_any_framer)')
                    continue
                if _legit_disruption(fr, cv.handle):
                    disrupted = True
                process(sim, label, victim.c2h.inject, fr, vt=0.005 if pending is not None and not pending.done() else 1.0)
            check_recursion(sim, label)
            if pending is not None:
                sim.loop.drive(pending.done, vt_budget=10.0, step_budget=300_000)
                if not pending.done():
                    sim.violation_once('pending', f'pending-request-never-concluded:{label}', 'the HCI command that was in flight during the attack got neither a response nor an exception')
                    pending.cancel()
                elif not pending.cancelled():
                    pending.exception()
                sim.loop.settle(vt_budget=1.0)
            if disrupted:
                sim.probe('legitimate_close_in_attack')
            else:
                if victim.device.connections.get(cv.handle) is not cv or cv.handle not in victim.host.connections:
                    sim.violation_once('gone', f'connection-dropped:{label}', 'the connection is gone although the controller never reported a disconnection')
                else:
                    with Guard(sim, label):
                        st, t = sim.run(ref(), 40.0)
                    sim.probe('reference_requests')
                    if st != 'done' or t.cancelled() or t.exception() is not None:
                        why = st if st != 'done' else ('cancelled' if t.cancelled() else type(t.exception()).__name__)
                        sim.violation_once('ref', f'reference-unanswered:{label}:{why}:raised={_exc(sim)}', f'HCI command + GATT read after the hostile packets: {why}')
                        if not t.done():
                            t.cancel()
                    elif t.result() != base:
                        sim.violation_once('ref', f'reference-answered-wrongly:{label}', f'{t.result()}')
        except Wedged:
            pass
        note_exceptions(sim)
        sim.trace.shape(label, tuple((f[:2].hex(), min(len(f), 40) // 8) for f in frames))
        return result(sim, nontrivial=sim.probes['hostile_frames_processed'] > 0 and (sim.probes['reference_requests'] > 0 or disrupted))
    finally:
        sim.close()


SCENARIOS = {'le': (gen_le, run_le), 'classic': (gen_classic, run_classic), 'hci': (gen_hci, run_hci)}
