"""C02 — HCI byte streams are re-framed into the same packets under any chunking.

Real: PacketParser, PacketReader, AsyncPacketReader, PacketSplitter (+ its three USB subclasses), StreamPacketSource,
the TCP, UNIX and WebSocket server protocol classes. Stub: byte sources (BytesIO, StreamReader.feed_data, protocol
callbacks driven by the simulator, a fake websocket connection), the packet sink (records).
"""
from __future__ import annotations

import io
import struct

from bsim.sim import Sim, result

PROPERTY = 'C02'
PLAN = {
    'quick': [('framers', 1500), ('servers', 1200)],
    'thorough': [('framers', 60000), ('servers', 40000)],
}
WALL_CAP = {'quick': 150, 'thorough': 1500}
EVIDENCE = {
    'level': 'exploration',
    'rule': ('framers: 1-12 well-formed packets of all five HCI types, body lengths from the boundary families {0,1,2,254,255} / '
             '{0,1,255,256,257,1021,65535} and random, body bytes biased towards packet-type values; every single cut and (for streams up '
             'to 64 bytes; 300 in thorough) every pair of cuts, all-1-byte, one chunk, header/body boundaries +-1, seeded k-cuts; the same '
             'stream through the push parser, the blocking reader, the asynchronous reader (chunks fed at seeded virtual times) and the '
             'USB per-endpoint splitters; an unrecognised type byte as the last byte of a chunk, alone, or mid-chunk. servers: a first '
             'client cut off at every byte position of its last packet, then a second client, on the TCP, UNIX and WebSocket server '
             'transports. evaluations = chunkings tried. Non-trivial: a packet was split across chunks; distinct = distinct (stream, chunking).'),
    'real': ['bumble.transport.common.PacketParser', 'PacketReader', 'AsyncPacketReader', 'StreamPacketSource',
             'bumble.transport.usb.PacketSplitter + Event/Acl/Sco splitters', 'tcp_server / unix / ws_server protocol classes'],
    'stub': ['byte sources and sinks', 'DetLoop.create_server / create_unix_server capture the protocol factory', 'fake websocket connection (async iterator of frames)'],
    'assumptions': ['after a bad type byte the remainder of that feed_data call is unspecified; expectations resume at the next call',
                    'pull readers are compared on clean streams and truncated tails only'],
    'exhaustive': 'every 1-cut split of every generated stream up to 2000 bytes and every 2-cut split of streams up to 64 bytes (300 in thorough); longer streams use boundary and seeded cuts',
}

INFO = {0x01: (2, 1), 0x02: (2, 2), 0x03: (2, 1), 0x04: (1, 1), 0x05: (2, 2)}  # type -> (length offset, length size)


def ref_frames(stream: bytes):
    """Independent reference framer, written from the HCI packet table. Returns list of (start, end) and a trailing-incomplete flag."""
    out = []
    i = 0
    n = len(stream)
    while i < n:
        t = stream[i]
        if t not in INFO:
            raise ValueError(f'bad type {t} at {i}')
        off, size = INFO[t]
        hdr = 1 + off + size
        if i + hdr > n:
            return out, True
        ln = int.from_bytes(stream[i + 1 + off:i + hdr], 'little')
        if t == 0x05:
            ln &= 0x3FFF  # ISO: Data_Total_Length is 14 bits, the two bits above it are reserved (ignored on receipt)
        if i + hdr + ln > n:
            return out, True
        out.append((i, i + hdr + ln))
        i += hdr + ln
    return out, False


def _packet(rng, big_ok):
    t = rng.choice([0x01, 0x02, 0x03, 0x04, 0x05, 0x04, 0x02])
    off, size = INFO[t]
    fam = [0, 1, 2, 254, 255] if size == 1 else [0, 1, 255, 256, 257, 1021] + ([65535 if t != 0x05 else 16383] if big_ok else [])
    ln = rng.choice(fam + [rng.randint(0, 40)])
    r = rng.random()
    if r < 0.4:
        body = bytes(rng.choice([1, 2, 3, 4, 5, 0, 255]) for _ in range(ln))
    else:
        body = bytes(rng.getrandbits(8) for _ in range(ln)) if ln < 5000 else bytes([rng.getrandbits(8)]) * ln
    lf = ln
    if t == 0x05 and rng.random() < 0.15:
        lf |= rng.choice([0x4000, 0x8000, 0xC000])  # reserved bits set by the sender: every framer ignores them alike
    hdr = bytes(rng.getrandbits(8) for _ in range(off)) + lf.to_bytes(size, 'little')
    return bytes([t]) + hdr + body


def gen_framers(rng, tier, seed):
    big = rng.random() < 0.08
    pk = [_packet(rng, big and i == 0) for i in range(rng.randint(1, 12))]
    return {'packets': pk, 'cut_seed': rng.randrange(1 << 30), 'bad': rng.choice([None, None, 'last_of_chunk', 'alone', 'mid_chunk']),
            'bad_at': rng.randrange(12), 'pairs_limit': 64 if tier == 'quick' else 300}


def _stream_source_classes(common):
    """StreamPacketSource and its module-level subclasses in the transports that import here (sorted by name: a stable order)."""
    import importlib
    for name in ('serial',):
        try:
            importlib.import_module(f'bumble.transport.{name}')
        except Exception:
            pass
    subs = [c for c in common.StreamPacketSource.__subclasses__() if c.__module__.startswith('bumble.transport.') and '<locals>' not in c.__qualname__]
    return [common.StreamPacketSource] + sorted(subs, key=lambda c: (c.__module__, c.__qualname__))


def _chunk(stream, cuts):
    cuts = sorted(set(c for c in cuts if 0 < c < len(stream)))
    out = []
    prev = 0
    for c in cuts + [len(stream)]:
        out.append(stream[prev:c])
        prev = c
    return [c for c in out if c] or [b'']


def run_framers(case):
    import random

    from bumble import core
    from bumble.transport import common, usb

    sim = Sim(case['seed'])
    try:
        packets = [bytes(p) for p in case['packets']]
        stream = b''.join(packets)
        frames, _ = ref_frames(stream)
        expected = [stream[a:b] for a, b in frames]
        assert expected == packets
        ends = [b for _, b in frames]
        n = len(stream)
        r = random.Random(case['cut_seed'])
        evaluations = 0
        split_seen = False

        class Sink:
            def __init__(self):
                self.got = []

            def on_packet(self, p):
                self.got.append(bytes(p))

        def check_push(chunks, label):
            nonlocal evaluations, split_seen
            evaluations += 1
            sink = Sink()
            parser = common.PacketParser(sink)
            fed = 0
            for ch in chunks:
                try:
                    parser.feed_data(ch)
                except Exception as e:
                    sim.violation_once('push-exc', f'push-parser:raised-on-well-formed-stream:{type(e).__name__}', f'{label}: {e!r}')
                    return False
                fed += len(ch)
                want = [p for p, e in zip(expected, ends) if e <= fed]
                if sink.got != want:
                    kind = 'early' if len(sink.got) > len(want) else ('late-or-lost' if len(sink.got) < len(want) else 'different-bytes')
                    sim.violation_once('push', f'push-parser:packets-{kind}:{label}', f'after {fed}/{n} bytes: {len(sink.got)} packets emitted, {len(want)} complete; chunk sizes {[len(c) for c in chunks][:8]}')
                    return False
            if any(e not in _cum(chunks) for e in ends[:-1]):
                split_seen = True
            return True

        # ---- chunkings
        ok = check_push([stream], 'one-chunk') and check_push([stream[i:i + 1] for i in range(n)] if n <= 4000 else [stream], 'all-1-byte')
        if ok:
            if n <= 2000:
                singles = range(1, n)
            else:
                near = set()
                for a, b in frames:
                    for d in (-2, -1, 0, 1, 2, 3, 4, 5):
                        near.add(a + d)
                        near.add(b + d)
                singles = sorted(c for c in near | {r.randrange(1, n) for _ in range(150)} if 0 < c < n)
            for c in singles:
                if not check_push(_chunk(stream, [c]), '1-cut'):
                    ok = False
                    break
        if ok and n <= case['pairs_limit']:
            for c1 in range(1, n):
                for c2 in range(c1 + 1, n):
                    if not check_push(_chunk(stream, [c1, c2]), '2-cut'):
                        ok = False
                        break
                if not ok:
                    break
        if ok:
            for _ in range(12):
                k = r.randint(2, 10)
                if n > 2 and not check_push(_chunk(stream, [r.randrange(1, n) for _ in range(k)]), 'k-cut'):
                    break

        # ---- blocking reader
        evaluations += 1
        rd = common.PacketReader(io.BytesIO(stream))
        got = []
        try:
            while (p := rd.next_packet()) is not None:
                got.append(bytes(p))
        except Exception as e:
            sim.violation_once('pull', f'blocking-reader:raised:{type(e).__name__}', repr(e))
        if got != expected and not sim.violations:
            sim.violation_once('pull', 'blocking-reader:different-packets', f'{len(got)} packets, expected {len(expected)}')
        # truncated tail: complete packets come out, then an error or end, never a wrong packet
        if n > 2:
            cut = r.randrange(1, n)
            evaluations += 1
            rd = common.PacketReader(io.BytesIO(stream[:cut]))
            got = []
            try:
                while (p := rd.next_packet()) is not None:
                    got.append(bytes(p))
            except core.InvalidPacketError:
                pass
            except Exception as e:
                sim.violation_once('pull', f'blocking-reader:unexpected-exception-on-truncated-stream:{type(e).__name__}', repr(e))
            want = [p for p, e in zip(expected, ends) if e <= cut]
            if got != want:
                sim.violation_once('pull', 'blocking-reader:wrong-packets-before-truncation', f'{len(got)} vs {len(want)}')

        # ---- asynchronous reader: chunks fed at seeded virtual times while a consumer pulls
        import asyncio
        chunks = _chunk(stream, [r.randrange(1, n) for _ in range(r.randint(1, 8))]) if n > 2 else [stream]
        evaluations += 1

        async def consume():
            sr = asyncio.StreamReader()
            reader = common.AsyncPacketReader(sr)
            delays = [r.choice([0.0, 0.001, 0.02]) for _ in chunks]

            async def feed():
                for ch, d in zip(chunks, delays):
                    await asyncio.sleep(d)
                    sr.feed_data(ch)
                await asyncio.sleep(0.01)
                sr.feed_eof()

            feeder = asyncio.ensure_future(feed())
            out = []
            try:
                while True:
                    out.append(bytes(await reader.next_packet()))
            except asyncio.IncompleteReadError:
                pass
            return out

        st, t = sim.run(consume(), 30.0)
        if st != 'done':
            sim.violation_once('async', 'async-reader:hangs', '')
            t.cancel()
        elif t.exception() is not None:
            sim.violation_once('async', f'async-reader:raised:{type(t.exception()).__name__}', repr(t.exception()))
        elif t.result() != expected:
            sim.violation_once('async', 'async-reader:different-packets', f'{len(t.result())} packets, expected {len(expected)}')

        # ---- USB per-endpoint splitters agree with the parser on the sub-streams
        for typ, cls in ((0x04, usb.EventPacketSplitter), (0x02, usb.AclPacketSplitter), (0x03, usb.ScoPacketSplitter)):
            sub = [p[1:] for p in expected if p[0] == typ]
            if not sub:
                continue
            s = b''.join(sub)
            for cuts in ([], [len(s) // 2], [r.randrange(1, max(2, len(s))) for _ in range(4)], list(range(1, min(len(s), 400)))):
                evaluations += 1
                out = []
                sp = cls(lambda p: out.append(bytes(p)))
                try:
                    for ch in _chunk(s, cuts):
                        sp.feed(ch)
                except Exception as e:
                    sim.violation_once('usb', f'usb-splitter:raised:{type(e).__name__}', repr(e))
                    break
                if out != sub:
                    sim.violation_once('usb', f'usb-splitter:different-packets:type={typ:#04x}', f'{len(out)} packets, expected {len(sub)}; cuts {cuts[:4]}')
                    break

        # ---- the sink is attached (or attached again) only after some chunks have been fed: what completes from then on is delivered
        def check_late(chunks, j, again):
            nonlocal evaluations
            evaluations += 1
            first, sink = Sink(), Sink()
            parser = common.PacketParser(first if again else None)
            fed = 0
            at = None
            for i, ch in enumerate(chunks):
                if i == j:
                    parser.set_packet_sink(sink)
                    at = fed
                try:
                    parser.feed_data(ch)
                except Exception as e:
                    sim.violation_once('late-sink', f'push-parser:raised-on-well-formed-stream:late-sink:{type(e).__name__}', repr(e))
                    return False
                fed += len(ch)
            if at is None:
                return True
            want = [p for p, e in zip(expected, ends) if e > at]
            if sink.got != want:
                sim.violation_once('late-sink', f'push-parser:packets-lost-after-sink-{"replaced" if again else "attached-late"}',
                                   f'sink set after {at}/{n} bytes: it got {len(sink.got)} packets, {len(want)} were completed after that point')
                return False
            return True
        if not sim.violations and n >= 2:
            for _ in range(4):
                cuts = sorted(r.sample(range(1, n), min(n - 1, r.randint(1, 4))))
                chunks = [stream[a:b] for a, b in zip([0] + cuts, cuts + [n])]
                if not check_late(chunks, r.randrange(len(chunks)), r.random() < 0.5):
                    break
            sim.probe('sink_attached_mid_stream')

        # ---- a sink that fails on some packets (an exception inside the host's handler): the parser contains it, and the packets
        # that follow - in the same chunk or in later ones - are still delivered, in order
        if not sim.violations and len(expected) >= 2:
            for _ in range(3):
                evaluations += 1
                bad_idx = set(r.sample(range(len(expected)), r.randint(1, max(1, len(expected) // 3))))

                class FailingSink:
                    def __init__(self):
                        self.got = []
                        self.n = 0

                    def on_packet(self, p):
                        k = self.n
                        self.n += 1
                        if k in bad_idx:
                            raise RuntimeError('sink failed on this packet')
                        self.got.append(bytes(p))

                fs = FailingSink()
                parser = common.PacketParser(fs)
                chunks = _chunk(stream, [r.randrange(1, n) for _ in range(r.randint(0, 4))]) if n > 2 else [stream]
                escaped = 0
                for ch in chunks:
                    try:
                        parser.feed_data(ch)
                    except RuntimeError:
                        escaped += 1  # whether the parser contains the sink's exception or passes it on is not judged; what it costs is
                    except Exception as e:
                        sim.violation_once('sink-exc', f'push-parser:raised-on-well-formed-stream:failing-sink:{type(e).__name__}', repr(e))
                        break
                want = [p for i, p in enumerate(expected) if i not in bad_idx]
                if fs.got != want or fs.n != len(expected):
                    sim.violation_once('sink-exc', f'push-parser:packets-lost-after-sink-exception:escaped={int(escaped > 0)}', f'sink was offered {fs.n} of {len(expected)} packets and kept {len(fs.got)} of {len(want)}; chunk sizes {[len(c) for c in chunks][:6]}')
                    break
            sim.fault('sink_raises_on_a_packet')

        # ---- two parsers alive at once (two transports in one process), their chunks interleaved: neither disturbs the other
        if not sim.violations and n >= 2:
            other = list(reversed(expected)) if len(expected) > 1 else [expected[0][:1] + expected[0][1:]]
            ostream = b''.join(other)
            for _ in range(3):
                evaluations += 1
                ca = _chunk(stream, [r.randrange(1, n) for _ in range(r.randint(1, 5))])
                cb = _chunk(ostream, [r.randrange(1, n) for _ in range(r.randint(1, 5))])
                sa, sb = Sink(), Sink()
                pa = common.PacketParser(sa)
                pb = None
                ia = ib = 0
                try:
                    while ia < len(ca) or ib < len(cb):
                        if ia < len(ca) and (ib >= len(cb) or r.random() < 0.5):
                            pa.feed_data(ca[ia])
                            ia += 1
                        else:
                            if pb is None:
                                pb = common.PacketParser(sb)  # created while the first one may be in the middle of a packet
                            pb.feed_data(cb[ib])
                            ib += 1
                except Exception as e:
                    sim.violation_once('two-parsers', f'push-parser:raised-on-well-formed-stream:two-parsers:{type(e).__name__}', repr(e))
                    break
                if sa.got != expected or sb.got != other:
                    sim.violation_once('two-parsers', 'push-parser:two-parsers-interfere', f'parser A emitted {len(sa.got)}/{len(expected)} packets, parser B {len(sb.got)}/{len(other)}; chunk sizes {[len(c) for c in ca][:6]} / {[len(c) for c in cb][:6]}')
                    break
            sim.probe('two_parsers_interleaved')

        # ---- unrecognised type byte at a packet boundary, through the stream transports' protocol object (tcp, unix, serial, file):
        # the packets before it are delivered once, the data fed afterwards is framed from its first byte
        if case['bad'] in ('last_of_chunk', 'alone') and len(expected) >= 2 and not sim.violations:
            k = 1 + case['bad_at'] % (len(expected) - 1)
            bad = bytes([r.choice([0x00, 0x06, 0x07, 0x80, 0xFF])])
            head, tail = b''.join(expected[:k]), b''.join(expected[k:])
            sink = Sink()
            src = sim.call(common.StreamPacketSource)  # needs a running loop
            src.set_packet_sink(sink)
            evaluations += 1
            try:
                # (inside the loop, as the transport would call it)
                if case['bad'] == 'last_of_chunk':
                    sim.call(src.data_received, head + bad)
                else:
                    sim.call(src.data_received, head)
                    sim.call(src.data_received, bad)
                for ch in _chunk(tail, [r.randrange(1, max(2, len(tail))) for _ in range(3)]):
                    sim.call(src.data_received, ch)
            except Exception as e:
                sim.violation_once('bad-stream', f'bad-type-byte:stream-source-raised:{case["bad"]}:{type(e).__name__}', repr(e))
            if sink.got != expected and not sim.violations:
                what = 'spurious-or-duplicated' if len(sink.got) > len(expected) else ('lost' if len(sink.got) < len(expected) else 'different-bytes')
                sim.violation_once('bad-stream', f'bad-type-byte:stream-source-packets-{what}:{case["bad"]}', f'{len(sink.got)} packets delivered, {len(expected)} well-formed packets were sent around the bad byte')

        # ---- the same stream through the stream transports' protocol object, its chunks arriving at seeded virtual times (pauses of
        # milliseconds to minutes, also in the middle of a packet): time does not move a packet boundary
        if not sim.violations and n >= 2:
            chunks = _chunk(stream, [r.randrange(1, n) for _ in range(r.randint(1, 6))])
            pauses = [r.choice([0.0, 0.001, 0.3, 1.5, 5.0, 120.0]) for _ in chunks]
            # (the plain source, and every transport's own subclass of it that can be made without a device: the serial one)
            for cls in _stream_source_classes(common):
                sink = Sink()
                src = sim.call(cls)
                src.set_packet_sink(sink)
                evaluations += 1
                tag = '' if cls is common.StreamPacketSource else ':' + cls.__name__
                try:
                    for ch, pause in zip(chunks, pauses):
                        sim.loop.advance(pause)
                        sim.call(src.data_received, ch)
                except Exception as e:
                    sim.violation_once('timed', f'stream-source:raised-on-well-formed-stream:{type(e).__name__}{tag}', repr(e))
                if sink.got != expected and not sim.violations:
                    sim.violation_once('timed', f'stream-source:different-packets:chunks-spread-over-time{tag}', f'{len(sink.got)} packets, expected {len(expected)}; chunk sizes {[len(c) for c in chunks][:6]}')
            sim.probe('chunks_spread_over_virtual_time')

        # ---- unrecognised type byte at a packet boundary
        if case['bad'] and len(expected) >= 2:
            k = 1 + case['bad_at'] % (len(expected) - 1)  # before packet k
            bad = bytes([r.choice([0x00, 0x06, 0x07, 0x80, 0xFF])])
            head, tail = b''.join(expected[:k]), b''.join(expected[k:])
            sink = Sink()
            parser = common.PacketParser(sink)
            evaluations += 1
            sim.fault(f'bad_type_byte:{case["bad"]}')
            raised = False
            try:
                if case['bad'] == 'last_of_chunk':
                    parser.feed_data(head + bad)
                elif case['bad'] == 'alone':
                    parser.feed_data(head)
                    parser.feed_data(bad)
                else:
                    parser.feed_data(head + bad + bytes(r.getrandbits(8) for _ in range(r.randint(1, 9))))
            except core.InvalidPacketError:
                raised = True
            except Exception as e:
                sim.violation_once('bad', f'bad-type-byte:unexpected-exception:{type(e).__name__}', repr(e))
            if not raised and not sim.violations:
                sim.violation_once('bad', f'bad-type-byte:error-not-reported:{case["bad"]}', 'feed_data returned normally')
            before = list(sink.got)
            if before[:k] != expected[:k]:
                sim.violation_once('bad', f'bad-type-byte:earlier-packets-lost:{case["bad"]}', f'{len(before)} emitted before the bad byte, {k} were complete')
            try:
                for ch in _chunk(tail, [r.randrange(1, max(2, len(tail))) for _ in range(3)]):
                    parser.feed_data(ch)
            except Exception as e:
                sim.violation_once('bad', f'bad-type-byte:later-data-raised:{case["bad"]}:{type(e).__name__}', repr(e))
            if sink.got[len(before):] != expected[k:] and not sim.violations:
                sim.violation_once('bad', f'bad-type-byte:later-data-misframed:{case["bad"]}', f'{len(sink.got) - len(before)} packets after the error, expected {len(expected) - k}')
        sim.trace.shape(tuple(len(p) for p in packets), case['bad'])
        res = result(sim, nontrivial=split_seen)
        res['evaluations'] = evaluations
        res['distinct_extra'] = evaluations
        return res
    finally:
        sim.close()


def _cum(chunks):
    s = set()
    t = 0
    for c in chunks:
        t += len(c)
        s.add(t)
    return s


# --------------------------------------------------------------------------------------
def gen_servers(rng, tier, seed):
    c1 = [_packet(rng, False) for _ in range(rng.randint(1, 4))]
    c2 = [_packet(rng, False) for _ in range(rng.randint(1, 4))]
    return {'transport': rng.choice(['tcp', 'unix', 'ws']), 'c1': c1, 'c2': c2, 'cut_seed': rng.randrange(1 << 30), 'how': rng.choice(['lost', 'eof+lost'])}


class _FakeTransport:
    def __init__(self):
        self.written = []

    def get_extra_info(self, name, default=None):
        return ('peer', 1)

    def write(self, data):
        self.written.append(bytes(data))

    def close(self):
        pass


class _FakeWs:
    """What websockets hands to the handler: an async iterator of frames."""

    def __init__(self, frames):
        self.frames = list(frames)
        self.local_address = ('::1', 1)
        self.remote_address = ('::1', 2)

    def __aiter__(self):
        return self

    async def __anext__(self):
        if not self.frames:
            raise StopAsyncIteration
        return self.frames.pop(0)

    async def send(self, data):
        pass


def run_servers(case):
    import random

    from bumble.transport import tcp_server, unix, ws_server

    sim = Sim(case['seed'])
    try:
        r = random.Random(case['cut_seed'])
        c1 = [bytes(p) for p in case['c1']]
        c2 = [bytes(p) for p in case['c2']]
        s1 = b''.join(c1)
        last_start = len(s1) - len(c1[-1])
        got = []

        class Sink:
            def on_packet(self, p):
                got.append(bytes(p))

        evaluations = 0
        kind = case['transport']
        # every byte position inside the first client's last packet (0 = nothing of it sent)
        positions = list(range(0, len(c1[-1]))) if len(c1[-1]) <= 300 else sorted({0, 1, 2, 3, 4, 5, len(c1[-1]) - 1} | {r.randrange(len(c1[-1])) for _ in range(40)})
        for p in positions:
            evaluations += 1
            got.clear()
            cut = last_start + p
            part = s1[:cut]
            want = c1[:-1] + c2
            if kind in ('tcp', 'unix'):
                sim.loop.server_factories.clear()
                if kind == 'tcp':
                    tr = sim.must(tcp_server.open_tcp_server_transport('_:9999'), 'tcp server')
                else:
                    tr = sim.must(unix.open_unix_server_transport('/tmp/bsim.sock'), 'unix server')
                tr.source.set_packet_sink(Sink())
                factory = sim.loop.server_factories[-1][1]
                for stream_, is_first in ((part, True), (b''.join(c2), False)):
                    proto = factory()
                    sim.call(proto.connection_made, _FakeTransport())
                    for ch in _chunk(stream_, [r.randrange(1, max(2, len(stream_))) for _ in range(3)]) if stream_ else []:
                        sim.call(proto.data_received, ch)
                    if is_first:
                        sim.fault('client_cut')
                        if case['how'] == 'eof+lost':
                            sim.call(proto.eof_received)
                        sim.call(proto.connection_lost, None)
            else:
                import websockets.asyncio.server as wss

                captured = {}

                async def fake_serve(handler=None, host=None, port=None, **kw):
                    captured['handler'] = handler

                    class S:
                        def close(self):
                            pass

                        async def wait_closed(self):
                            pass
                    return S()

                orig = wss.serve
                wss.serve = fake_serve
                try:
                    tr = sim.must(ws_server.open_ws_server_transport('_:9998'), 'ws server')
                finally:
                    wss.serve = orig
                tr.source.set_packet_sink(Sink())
                for stream_, is_first in ((part, True), (b''.join(c2), False)):
                    frames = _chunk(stream_, [r.randrange(1, max(2, len(stream_))) for _ in range(3)]) if stream_ else []
                    st, t = sim.run(captured['handler'](_FakeWs(frames)), 10.0)
                    if is_first:
                        sim.fault('client_cut')
                sim.must(tr.close(), 'close')
            sim.loop.settle()
            if got != want:
                where = 'before-its-first-byte' if p == 0 else ('inside-header' if p < 1 + sum(INFO[c1[-1][0]]) else 'inside-body')
                sim.violation_once('client-cut', f'server:{kind}:second-client-misframed:first-client-cut={where}',
                                   f'first client cut after {p} bytes of its last packet: sink saw {len(got)} packets, expected {len(want)} (first client complete packets, then the second client stream)')
                break
        sim.trace.shape(kind, tuple(len(p) for p in c1), tuple(len(p) for p in c2))
        res = result(sim, nontrivial=len(positions) > 1)
        res['evaluations'] = evaluations
        res['distinct_extra'] = evaluations
        return res
    finally:
        sim.close()


SCENARIOS = {'framers': (gen_framers, run_framers), 'servers': (gen_servers, run_servers)}
