"""C15 — the JSON key store is exact, persistent, namespace-isolated and crash-atomic.

Real: JsonKeyStore (load, save, mutators, namespace resolution), PairingKeys (de)serialisation.
Stub: SimFS behind bumble.keys.open / os / pathlib (process-crash model, numbered file-system steps).
"""
from __future__ import annotations

import copy
import json

from bsim import simfs
from bsim.sim import HarnessError

PROPERTY = 'C15'
PLAN = {
    'quick': [('store', 700)],
    'thorough': [('store', 12000)],
}
WALL_CAP = {'quick': 150, 'thorough': 1500}
EVIDENCE = {
    'level': 'fault_enumeration',
    'rule': ('seeded histories of update / delete / delete_all / get / get_all / get_resolving_keys over 3 peers x 3 named namespaces '
             'plus a default-namespace instance sharing one file, PairingKeys with every field-presence combination; for every '
             'history first a fault-free run against a reference map (replace and overlay update semantics tracked side by side), '
             'then one re-run per file-system step (exists, mkdir, open, each buffered write, flush, close, replace) of every mutating '
             'operation, with a process crash before and after that step or an I/O error (EIO/ENOSPC) before it, followed by the rest '
             'of the history on the surviving tree. evaluations = executions (fault-free + one per fault point). Non-trivial: a '
             'history with at least two namespaces in the file when a fault fired; distinct = distinct (history digest, fault point).'),
    'real': ['bumble.keys.JsonKeyStore', 'bumble.keys.PairingKeys'],
    'stub': ['SimFS (bsim/simfs.py): in-memory tree, user-space write buffer of a drawn size, atomic replace, inode semantics'],
    'assumptions': ['process-crash model: completed write() calls that were flushed survive, unflushed buffers and open handles do not; rename is atomic',
                    'update may replace or overlay earlier fields, consistently for the whole history',
                    'deleting an absent name may raise or be a no-op; state must not change'],
    'exhaustive': 'every file-system step (crash before and after, I/O error before) of every mutating operation of every generated history',
}

FILE = '/data/bumble/keys.json'
# (the third differs from the second by letter case only: two namespaces all the same)
NAMESPACES = ['00:11:22:33:44:55', 'F0:F0:F0:F0:F0:F0', 'f0:f0:f0:f0:f0:f0']
PEERS = ['AA:BB:CC:00:00:01', 'AA:BB:CC:00:00:02', 'C1:22:33:44:55:66']
KEYNAMES = ['ltk', 'ltk_central', 'ltk_peripheral', 'irk', 'csrk', 'link_key']


def _gen_keys(rng):
    spec = {}
    if rng.random() < 0.6:
        spec['address_type'] = rng.choice([0, 1])
    for k in KEYNAMES:
        if rng.random() < 0.4:
            key = {'value': bytes(rng.getrandbits(8) for _ in range(16)).hex(), 'authenticated': rng.random() < 0.5}
            if rng.random() < 0.4:
                key['ediv'] = rng.choice([0, 1, 0x1234, 0xFFFF])
            if rng.random() < 0.4:
                key['rand'] = bytes(rng.getrandbits(8) for _ in range(8)).hex()
            spec[k] = key
    if rng.random() < 0.3:
        spec['link_key_type'] = rng.randrange(0, 9)
    return spec


def gen_store(rng, tier, seed):
    ops = []
    n = rng.randint(2, 9 if tier == 'quick' else 24)
    for _ in range(n):
        ns = rng.choice([0, 1, 2, 'default', 'default'])
        r = rng.random()
        if r < 0.08:
            # two mutations in flight at once (gather) on two store objects, for different peers: both must take effect
            ns2 = rng.choice([0, 1, 2, 'default'])
            pa, pb = rng.sample(range(3), 2)
            a = ['update', ns, pa, _gen_keys(rng)]
            b = rng.choice([['update', ns2, pb, _gen_keys(rng)], ['delete', ns2, pb]])
            ops.append(['both', a, b])
        elif r < 0.5:
            ops.append(['update', ns, rng.randrange(3), _gen_keys(rng)])
        elif r < 0.65:
            ops.append(['delete', ns, rng.randrange(3)])
        elif r < 0.72:
            ops.append(['delete_all', ns])
        elif r < 0.82:
            ops.append(['get', ns, rng.randrange(3)])
        elif r < 0.92:
            ops.append(['get_all', ns])
        else:
            ops.append(['get_resolving_keys', ns])
    buffer = rng.choice([16, 64, 256, 8192])
    # every file-system step of every mutating op is a fault point and costs one re-run of the history: a small write buffer makes
    # many steps per save, so long histories only go with large buffers (keeps one case well under the per-run wall limit)
    ops = ops[:{16: 7, 64: 12}.get(buffer, len(ops))]
    # ('eio+crash' / 'enospc+crash': the I/O error, and a crash a few steps later if the store carries on after the error)
    return {'buffer': buffer, 'ops': ops, 'fault': rng.choice(['crash', 'crash', 'eio', 'enospc', 'eio+crash', 'enospc+crash']),
            'chain': [rng.choice([1, 1, 2, 3, 4]), rng.choice(['before', 'after'])],
            'precreate_dir': rng.random() < 0.5, 'long_lived': rng.random() < 0.5}


_LOOP = None


def _run_coro(coro):
    """Run a store coroutine to completion on a private event loop (the store may await real things: a lock, a worker thread)."""
    global _LOOP
    import asyncio
    if _LOOP is None or _LOOP.is_closed():
        _LOOP = asyncio.new_event_loop()
    return _LOOP.run_until_complete(coro)


class Model:
    def __init__(self):
        self.db = {'replace': {}, 'overlay': {}}
        self.alive = {'replace', 'overlay'}

    def effective_ns(self, ns, which):
        if ns != 'default':
            return NAMESPACES[ns]
        db = self.db[which]
        if '__DEFAULT__' in db:
            return '__DEFAULT__'
        if len(db) == 1:
            return next(iter(db))
        return '__DEFAULT__'

    def apply(self, op):
        kind = op[0]
        for which in list(self.db):
            db = self.db[which]
            ens = self.effective_ns(op[1], which)
            if kind == 'update':
                peer = PEERS[op[2]]
                entry = db.setdefault(ens, {})
                if which == 'replace':
                    entry[peer] = copy.deepcopy(op[3])
                else:
                    entry.setdefault(peer, {}).update(copy.deepcopy(op[3]))
            elif kind == 'delete':
                peer = PEERS[op[2]]
                if ens in db and peer in db[ens]:
                    del db[ens][peer]
                # deleting an absent name: no change (the namespace is not created either way... see note)
            elif kind == 'delete_all':
                db.setdefault(ens, {}).clear()


def _expected_keys(spec):
    from bumble import hci
    from bumble.keys import PairingKeys

    def key(k):
        if k not in spec:
            return None
        d = spec[k]
        return PairingKeys.Key(bytes.fromhex(d['value']), d.get('authenticated', False), d.get('ediv'),
                               bytes.fromhex(d['rand']) if d.get('rand') is not None else None)

    return PairingKeys(
        address_type=hci.AddressType(spec['address_type']) if spec.get('address_type') is not None else None,
        ltk=key('ltk'), ltk_central=key('ltk_central'), ltk_peripheral=key('ltk_peripheral'), irk=key('irk'), csrk=key('csrk'),
        link_key=key('link_key'), link_key_type=spec.get('link_key_type'))


def _to_pairing_keys(spec):
    return _expected_keys(spec)


class Runner:
    """One execution of a history on a fresh SimFS, optionally with one planned fault."""

    def __init__(self, case, plan=None):
        self.case = case
        self.fs = simfs.SimFS(case['buffer'])
        if case['precreate_dir']:
            self.fs.mkdir('/data/bumble', True, True)
        self.fs.plan = plan
        self.model = Model()
        self.stores = {}
        self.violations = []
        self.step_ranges = []  # per op: (first step, last step) of mutating ops
        self.fault_info = None

    def v(self, cls, sig, msg):
        if not any(c == cls for c, _, _ in self.violations):
            self.violations.append((cls, sig, msg))

    def store(self, ns):
        from bumble.keys import JsonKeyStore

        if not self.case.get('long_lived'):
            return JsonKeyStore(None if ns == 'default' else NAMESPACES[ns], FILE)
        # one instance per namespace for the life of the process: several live instances share the file and are used alternately
        if ns not in self.stores:
            self.stores[ns] = JsonKeyStore(None if ns == 'default' else NAMESPACES[ns], FILE)
        return self.stores[ns]

    def raw(self):
        """The file as the class docstring lays it out: ns -> peer -> fields. None if absent."""
        data = self.fs.files.get(FILE)
        if data is None:
            return None
        return json.loads(data.decode('utf-8'))

    def file_matches(self, db):
        raw = self.raw()
        if raw is None:
            return not db
        if not isinstance(raw, dict):
            return False
        # namespaces that exist but are empty may or may not be materialised in the file
        strip = lambda d: {k: v for k, v in d.items() if v}
        return strip(raw) == strip(db)

    def check_all(self, after, faulty):
        """Results of get_all from fresh instances equal the model, for every namespace; models that disagree die."""
        from bumble.keys import PairingKeys

        tag = 'after-fault' if faulty else 'clean'
        views = {}
        for ns in [0, 1, 2, 'default']:
            try:
                got = _run_coro(self.store(ns).get_all())
            except simfs.Unmodelled as e:
                raise HarnessError(str(e))
            except Exception as e:
                self.v('read', f'store:get_all-raised:{type(e).__name__}:{tag}:after={after}', f'get_all({ns}) raised {e!r}; file: {str(self.fs.files.get(FILE))[:80]}')
                return
            views[ns] = dict(got)
        for which in list(self.model.alive):
            ok = True
            for ns in [0, 1, 2, 'default']:
                ens = self.model.effective_ns(ns, which)
                want = {peer: _expected_keys(spec) for peer, spec in self.model.db[which].get(ens, {}).items()}
                if views[ns] != want:
                    ok = False
                    self.last_diff = (which, ns, sorted(views[ns]), sorted(want))
                    break
            if not ok:
                self.model.alive.discard(which)
        if not self.model.alive:
            which, ns, got, want = self.last_diff
            nsname = 'default-instance' if ns == 'default' else 'named'
            self.v('state', f'store:state-differs-from-history:{nsname}:{tag}:after={after}',
                   f'namespace {ns}: store returns peers {got}, applying the history gives {want} (both update semantics ruled out)')

    def run(self):
        from bumble.keys import PairingKeys

        case = self.case
        faulty = False
        for i, op in enumerate(case['ops']):
            kind = op[0]
            if kind == 'both':
                if not self.run_both(op, faulty):
                    return
                continue
            ns = op[1]
            st = self.store(ns)
            first = self.fs.step + 1
            pre = copy.deepcopy(self.model.db)
            crashed = False
            try:
                if kind == 'update':
                    _run_coro(st.update(PEERS[op[2]], _to_pairing_keys(op[3])))
                elif kind == 'delete':
                    try:
                        _run_coro(st.delete(PEERS[op[2]]))
                    except KeyError:
                        pass
                elif kind == 'delete_all':
                    _run_coro(st.delete_all())
                elif kind == 'get':
                    got = _run_coro(st.get(PEERS[op[2]]))
                    self.check_get(ns, PEERS[op[2]], got, faulty)
                elif kind == 'get_all':
                    _run_coro(st.get_all())
                elif kind == 'get_resolving_keys':
                    got = _run_coro(st.get_resolving_keys())
                    self.check_resolving(ns, got, faulty)
            except simfs.Crash:
                crashed = True
                self.fs.crash_cleanup()
                self.stores.clear()  # the process is gone, and with it every store instance
            except OSError as e:
                if self.fs.fired is None:
                    self.v('oserror', f'store:unexpected-oserror:{kind}', repr(e))
                    return
                crashed = True  # the operation failed with an injected I/O error: same oracle as a crash, process lives on
            except simfs.Unmodelled as e:
                raise HarnessError(str(e))
            except Exception as e:
                tag = 'after-fault' if faulty else 'clean'
                self.v('raised', f'store:{kind}-raised:{type(e).__name__}:{tag}', f'{kind}({ns}) raised {e!r}; file: {str(self.fs.files.get(FILE))[:60]}')
                return
            if kind in ('update', 'delete', 'delete_all'):
                self.step_ranges.append((i, first, self.fs.step))
            if not crashed:
                self.fs.plan2 = None  # (a chained crash is meant for the operation that met the I/O error, not for a later one)
            if crashed:
                faulty = True
                fired = self.fs.fired
                self.fault_info = (kind, fired)
                self.fs.plan = None
                self.fs.plan2 = None
                if self.fs.fired2 is not None:
                    fired = (fired[0], fired[1], fired[2].split(' ')[0] + '-error-then-crash-at-' + self.fs.fired2[2])
                # the file is the complete pre-state or the complete post-state of ALL namespaces
                post_model = Model()
                post_model.db = copy.deepcopy(pre)
                post_model.apply(op)
                try:
                    candidates = []
                    for which in self.model.alive:
                        if self.file_matches(pre[which]):
                            candidates.append((which, 'pre'))
                        if self.file_matches(post_model.db[which]):
                            candidates.append((which, 'post'))
                except (ValueError, UnicodeDecodeError) as e:
                    self.v('atomic', f'crash:file-unparseable:{kind}:{fired[2].split(" ")[0]}:{fired[1]}',
                           f'after a {case["fault"]} {fired[1]} step "{fired[2]}" of {kind} the file does not parse: {str(self.fs.files.get(FILE))[:60]!r}')
                    return
                if not candidates:
                    self.v('atomic', f'crash:file-neither-old-nor-new:{kind}:{fired[2].split(" ")[0]}:{fired[1]}',
                           f'after a {case["fault"]} {fired[1]} step "{fired[2]}" of {kind} the file is neither the previous nor the new state')
                    return
                # adopt what is on disk (it equals the old or the new state up to empty namespaces; which namespaces exist
                # matters for the default-namespace rule, so the file itself is the truth from here on)
                keep = {w for w, _ in candidates}
                self.model.alive &= keep
                raw = self.raw() or {}
                for which in keep:
                    self.model.db[which] = copy.deepcopy(raw)
            else:
                self.model.apply(op)
            self.check_all(kind, faulty)
            if self.violations:
                return

    def run_both(self, op, faulty):
        """Two mutations started together. No fault is planned inside (their steps are not in step_ranges)."""
        import asyncio
        from bumble.keys import JsonKeyStore

        _, a, b = op
        # the default-namespace rule depends on what the file holds when the operation runs: with two in flight that moment is
        # not defined, so a pair that involves the default instance is run one after the other
        concurrent = a[1] != 'default' and b[1] != 'default'

        def coro(o):
            # two objects even for one namespace: two users of the file in one process
            st = JsonKeyStore(None if o[1] == 'default' else NAMESPACES[o[1]], FILE)

            async def go():
                try:
                    if o[0] == 'update':
                        await st.update(PEERS[o[2]], _to_pairing_keys(o[3]))
                    else:
                        await st.delete(PEERS[o[2]])
                except KeyError:
                    pass
            return go()
        saved_plan, self.fs.plan = self.fs.plan, None
        try:
            if concurrent:
                async def both():
                    await asyncio.gather(coro(a), coro(b))
                _run_coro(both())
            else:
                _run_coro(coro(a))
                _run_coro(coro(b))
        except simfs.Unmodelled as e:
            raise HarnessError(str(e))
        except Exception as e:
            self.v('raised', f'store:concurrent-mutations-raised:{type(e).__name__}', f'{a[0]}({a[1]}) + {b[0]}({b[1]}) started together raised {e!r}')
            return False
        finally:
            self.fs.plan = saved_plan
        self.model.apply(a)
        self.model.apply(b)
        self.check_all('two-mutations-in-flight' if concurrent else 'two-mutations', faulty)
        return not self.violations

    def check_get(self, ns, peer, got, faulty):
        tag = 'after-fault' if faulty else 'clean'
        oks = []
        for which in self.model.alive:
            ens = self.model.effective_ns(ns, which)
            spec = self.model.db[which].get(ens, {}).get(peer)
            want = _expected_keys(spec) if spec is not None else None
            oks.append(got == want)
        if oks and not any(oks):
            self.v('get', f'store:get-mismatch:{tag}', f'get({ns},{peer}) returned {got}')

    def check_resolving(self, ns, got, faulty):
        from bumble import hci

        tag = 'after-fault' if faulty else 'clean'
        oks = []
        for which in self.model.alive:
            ens = self.model.effective_ns(ns, which)
            want = []
            for peer, spec in self.model.db[which].get(ens, {}).items():
                if 'irk' in spec:
                    at = spec.get('address_type')
                    want.append((bytes.fromhex(spec['irk']['value']), peer, at if at is not None else 1))
            g = sorted((bytes(k), str(a).split('/')[0], a.address_type) for k, a in got)
            oks.append(g == sorted(want))
        if oks and not any(oks):
            self.v('resolving', f'store:resolving-keys-mismatch:{tag}', f'{got}')


def run_store(case):
    undo = None
    fs0 = simfs.SimFS(case['buffer'])
    undo = simfs.install(fs0)
    try:
        violations = []
        evaluations = 0
        faults = {}
        probes = {}
        shapes = []

        def one(plan):
            nonlocal evaluations
            r = Runner(case, plan)
            # every Runner brings its own SimFS: re-point the module globals at it
            from bumble import keys
            keys.open = r.fs.open
            keys.os = simfs._FakeOs(r.fs)
            keys.pathlib = simfs._FakePathlib(r.fs)
            r.run()
            evaluations += 1
            for cls, sig, msg in r.violations:
                if not any(s == sig for s, _ in violations):
                    violations.append((sig, msg + (f' [fault plan {plan}]' if plan else '')))
            return r

        base = one(None)
        multi_ns = len([ns for ns in base.model.db['overlay'] if base.model.db['overlay'][ns]]) >= 2
        if not base.violations:
            fkind, _, chained = case['fault'].partition('+')
            chain = tuple(case.get('chain') or (1, 'before')) if chained else None
            for (i, first, last) in base.step_ranges:
                for step in range(first, last + 1):
                    for when in (('before', 'after') if fkind == 'crash' else ('before',)):
                        r = one((step, when, fkind, chain))
                        if r.fs.fired is not None:
                            name = r.fs.fired[2].split(' ')[0]
                            faults[f'{fkind}:{when}:{name}'] = faults.get(f'{fkind}:{when}:{name}', 0) + 1
                            if r.fs.fired2 is not None:
                                faults['crash-after-io-error'] = faults.get('crash-after-io-error', 0) + 1
                            if multi_ns:
                                probes['fault_with_two_namespaces_in_file'] = probes.get('fault_with_two_namespaces_in_file', 0) + 1
        import hashlib
        shape = hashlib.sha256(repr((case['ops'], case['buffer'], case['fault'])).encode()).hexdigest()[:16]
        return {'violations': violations, 'probes': probes, 'faults': faults, 'digest': shape, 'shape': shape, 'vt': 0.0, 'steps': fs0.step,
                'nontrivial': bool(faults) and multi_ns, 'evaluations': evaluations,
                'distinct_extra': evaluations}
    finally:
        if undo:
            undo()


SCENARIOS = {'store': (gen_store, run_store)}
