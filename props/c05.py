"""C05 — L2CAP PDUs of any size cross the ACL link intact for any buffer geometry; ISO fragments.

Real: Host.send_acl_sdu/send_l2cap_pdu/send_iso_sdu, DataPacketQueue, HCI_AclDataPacketAssembler (host and
controller side), controller relay, LocalLink, L2CAP_PDU. Stub: refragmenting transformation on the
controller->host channel, injected malformed fragments, scripted ISO sink/completions.
"""
from __future__ import annotations

import struct

from bsim.sim import PROFILE_NAMES, Sim, World, result

PROPERTY = 'C05'
PLAN = {
    'quick': [('acl', 2200), ('iso', 6000)],
    'thorough': [('acl', 60000), ('iso', 200000)],
}
WALL_CAP = {'quick': 150, 'thorough': 1500}
EVIDENCE = {
    'level': 'exploration',
    'rule': ('acl: two full stacks connected over LE or BR/EDR with drawn ACL buffer length (27..65535) and count (1..64) per '
             'controller, 1-14 PDUs of boundary lengths (0,1,kF-5..kF-3,65531,65532,65535) in both directions, optional legal '
             're-fragmentation towards the receiving host and malformed fragment sequences injected between PDUs at the host- '
             'and controller-side assemblers; iso: SDU lengths 1..4095 against ISO buffer lengths 5..4095. Non-trivial: at '
             'least one PDU needed more than one fragment; distinct = distinct sequence of (boundary, fragment count per PDU, fault kinds).'),
    'real': ['bumble.host.Host (send_acl_sdu, send_l2cap_pdu, send_iso_sdu, ACL receive path)', 'bumble.host.DataPacketQueue',
             'bumble.hci.HCI_AclDataPacketAssembler', 'bumble.controller.Controller (ACL relay)', 'bumble.link.LocalLink', 'bumble.l2cap.L2CAP_PDU'],
    'stub': ['refragment transformation on controller->host channel', 'malformed-fragment injector', 'ISO: scripted sink + completion events (virtual controller ignores ISO data)'],
    'assumptions': ['fragment sizes >= 27 (spec minimum)', 'order-preserving loss-free HCI and air channels', 'ISO SDUs 1..4095 bytes'],
}

BASE_CID = 0x0050


def _lens(rng, F):
    fam = [0, 1, 2, F - 5, F - 4, F - 3, 2 * F - 5, 2 * F - 4, 2 * F - 3, 3 * F - 4, 3 * F - 3, 100, 600]
    fam = [x for x in fam if 0 <= x <= 65535]
    return fam


def gen_acl(rng, tier, seed):
    # (lengths below 27 are outside the range the specification allows a controller to report, but a host that is told 9 must
    # still not emit 10: the clause is about the length the controller announced)
    geo = [27, 27, 28, 31, 64, 251, 1021, 65535, rng.randint(27, 400), rng.choice([27, 23, 16, 9, 5])]
    ctrl = []
    for _ in range(2):
        ctrl.append({
            'acl_len': rng.choice(geo), 'acl_num': rng.choice([1, 1, 2, 3, 8, 64]),
            'le_len': rng.choice(geo + [0]), 'le_num': rng.choice([1, 2, 3, 8, 64]),
        })
    transport = rng.choice(['le', 'le', 'classic'])
    ops = []
    big_budget = 1 if tier == 'quick' else 2
    for _ in range(rng.randint(1, 14)):
        r = rng.random()
        d = rng.randrange(2)
        c = ctrl[d]
        F = c['acl_len'] if (transport == 'classic' or c['le_len'] == 0) else c['le_len']
        if r < 0.72:
            fam = _lens(rng, F)
            if rng.random() < 0.08 and big_budget > 0:
                big_budget -= 1
                ln = rng.choice([65531, 65532, 65535, 65530, 40000])
            elif rng.random() < 0.3:
                ln = rng.randint(0, 1500)
            else:
                ln = rng.choice(fam)
            ops.append(['pdu', d, rng.randrange(4), ln])
        elif r < 0.82:
            ops.append(['settle'])
        else:
            ops.append(['bad', d, rng.choice(['cont_no_start', 'beyond_length', 'start_over_start', 'short_start', 'exact_then_extra', 'interrupted_then_completed']),
                        rng.choice(['host', 'host', 'controller'])])
    faults_on = rng.random() < 0.65
    if not faults_on:
        ops = [o for o in ops if o[0] != 'bad']
    ops = ops or [['pdu', 0, 0, 10]]
    bystander = rng.random() < 0.3
    if bystander:
        if rng.random() < 0.5:
            # a second connection of node 0 (sharing its data packet queue) goes away while PDUs are queued / in flight
            ops.insert(rng.randint(1, len(ops)), ['drop_other'])
        else:
            # node 0 talks to both peers through the one queue: a PDU for the second peer right behind one for the first
            c = ctrl[0]
            F = c['acl_len'] if (transport == 'classic' or c['le_len'] == 0) else c['le_len']
            for _ in range(rng.randint(1, 3)):
                k = rng.randint(0, len(ops))
                ops.insert(k, ['pdu_other', min(60000, rng.choice(_lens(rng, F) + [1, 10, 3 * F, 9 * F]))])
                if rng.random() < 0.6:
                    N = c['acl_num'] if (transport == 'classic' or c['le_len'] == 0) else c['le_num']
                    ops.insert(k, ['pdu', 0, rng.randrange(4), min(60000, (N + rng.randint(0, 3)) * F + rng.randint(0, F))])
    return {
        'ctrl': ctrl, 'transport': transport, 'profile': rng.choice(PROFILE_NAMES),
        'refragment': [rng.choice([0, 0, 1, 5, 27, 100]) if faults_on else 0 for _ in range(2)],
        'ops': ops, 'bystander': bystander,
        # a controller that batches its completion reports: each event also names a handle that has no ACL queue (what a SCO link
        # looks like to the data path), listed first, with a count of zero
        'nocp_batch': rng.random() < 0.25,
    }


class AclMonitor:
    """Host->controller ACL discipline for one node."""

    def __init__(self, sim, node, index, adv_len, adv_num, handle):
        self.sim = sim
        self.index = index
        self.chan_out = f'{node.name}.h2c'
        self.chan_in = f'{node.name}.c2h'
        self.adv_len = adv_len
        self.adv_num = adv_num
        self.handles = {handle}
        self.in_flight = 0
        self.remaining_by_handle = {}  # handle -> bytes of the current PDU still expected
        self.frag_counts = []
        self.cur_frags_by_handle = {}
        self.injecting = False
        sim.monitors.append(self.on_tap)

    def on_tap(self, chan, direction, data):
        if chan == self.chan_out and direction == 'tx' and data[0] == 0x02 and not self.injecting:
            hf, ln = struct.unpack_from('<HH', data, 1)
            handle, pb = hf & 0x0FFF, (hf >> 12) & 3
            body = data[5:]
            if ln != len(body):
                self.sim.violation_once('aclhdr', 'acl:length-field-mismatch', f'data_total_length={ln} but {len(body)} bytes')
            if len(body) > self.adv_len:
                self.sim.violation_once('acllen', 'acl:fragment-exceeds-controller-length', f'{len(body)} > advertised {self.adv_len}')
            if handle not in self.handles:
                self.sim.violation_once('aclhandle', 'acl:wrong-handle', f'{handle:#x} not in {sorted(self.handles)}')
            self.remaining = self.remaining_by_handle.get(handle, 0)
            self.cur_frags = self.cur_frags_by_handle.get(handle, 0)
            if self.remaining == 0:
                if pb not in (0, 2):
                    self.sim.violation_once('aclpb', 'acl:first-fragment-marked-continuation', f'pb={pb} on a first fragment')
                if len(body) >= 2:
                    self.remaining = struct.unpack_from('<H', body, 0)[0] + 4 - len(body)
                self.cur_frags = 1
            else:
                if pb != 1:
                    self.sim.violation_once('aclpb', 'acl:continuation-marked-first', f'pb={pb} on a continuation fragment')
                self.remaining -= len(body)
                self.cur_frags += 1
            if self.remaining < 0:
                self.sim.violation_once('aclover', 'acl:fragments-exceed-pdu-length', 'more fragment data than the L2CAP length announces')
                self.remaining = 0
            if self.remaining == 0:
                self.frag_counts.append(self.cur_frags)
                if self.cur_frags > 1:
                    self.sim.probe('fragment_count>1')
            self.remaining_by_handle[handle] = self.remaining
            self.cur_frags_by_handle[handle] = self.cur_frags
            self.in_flight += 1
            if self.in_flight >= self.adv_num:
                self.sim.probe('acl_buffers_full')
            if self.in_flight > self.adv_num:
                self.sim.violation_once('aclflight', 'acl:in-flight-exceeds-buffer-count', f'{self.in_flight} in flight, controller advertised {self.adv_num}')
        elif chan == self.chan_in and direction == 'rx' and data[0] == 0x04 and data[1] == 0x13:
            n = data[3]
            for i in range(n):  # (handle, count) pairs
                cnt = struct.unpack_from('<H', data, 4 + 4 * i + 2)[0]
                self.in_flight = max(0, self.in_flight - cnt)


def _refragmenter(sim, rng_seed, maxchunk):
    import random

    r = random.Random(rng_seed)

    def transform(packet: bytes):
        if packet[0] != 0x02 or maxchunk <= 0:
            return [packet]
        hf, ln = struct.unpack_from('<HH', packet, 1)
        handle, pb, bc = hf & 0x0FFF, (hf >> 12) & 3, (hf >> 14) & 3
        body = packet[5:]
        if len(body) <= 4:
            return [packet]
        out = []
        off = 0
        first = True
        while off < len(body):
            # the first chunk keeps at least the 4-byte L2CAP header together only sometimes
            n = r.randint(1, max(1, maxchunk))
            if first:
                n = max(n, 4)  # conservative reading: a start fragment carries the whole basic L2CAP header
            chunk = body[off:off + n]
            flag = pb if first else 1
            out.append(struct.pack('<BHH', 0x02, handle | flag << 12 | bc << 14, len(chunk)) + chunk)
            off += len(chunk)
            first = False
        if len(out) > 1:
            sim.fault('refragment')
        return out

    return transform


def run_acl(case):
    from bumble import hci

    sim = Sim(case['seed'], case.get('profile', 'zero'), slow_node='N1')
    try:
        classic = case['transport'] == 'classic'
        attrs = []
        for c in case['ctrl']:
            attrs.append({'acl_data_packet_length': c['acl_len'], 'total_num_acl_data_packets': c['acl_num'],
                          'le_acl_data_packet_length': c['le_len'], 'total_num_le_acl_data_packets': c['le_num'] if c['le_len'] else 0})
        nb = 3 if case.get('bystander') else 2
        if nb == 3:
            attrs.append(dict(attrs[1]))
        world = World(sim, nb, controller_attrs=attrs, classic=classic)
        world.power_on()
        other = other0 = None
        if classic:
            got = []
            world[1].device.once('connection', got.append)
            c0 = sim.must(world[0].device.connect(world[1].controller.public_address, transport=0), 'classic connect')
            sim.loop.drive(lambda: bool(got), 10.0)
            sim.loop.settle()
            conns = [c0, got[0]]
            if nb == 3:
                got2 = []
                world[2].device.once('connection', got2.append)
                sim.must(world[0].device.connect(world[2].controller.public_address, transport=0), 'classic connect (bystander)')
                sim.loop.drive(lambda: bool(got2), 10.0)
                sim.loop.settle()
                other = got2[0] if got2 else None
                other0 = next((c for c in world[0].device.connections.values() if c is not c0), None)
        else:
            conns = list(world.connect_le(0, 1))
            if nb == 3:
                other0, other = world.connect_le(0, 2)
        mons = []
        for i, nd in enumerate(world.nodes[:2]):
            c = case['ctrl'][i]
            if classic or c['le_len'] == 0:
                L, N = c['acl_len'], c['acl_num']
            else:
                L, N = c['le_len'], c['le_num']
            mons.append(AclMonitor(sim, nd, i, L, N, conns[i].handle))
        received = [[], [], []]  # received[d] = PDUs that arrived at node d
        if other0 is not None:
            mons[0].handles.add(other0.handle)
        for d in range(nb):
            def on_pdu(handle, cid, pdu, d=d):
                if BASE_CID <= cid < BASE_CID + 16:
                    received[d].append((cid, bytes(pdu)))
            world[d].host.on('l2cap_pdu', on_pdu)
        for d in range(2):
            if case['refragment'][d]:
                world[d].c2h.transform = _refragmenter(sim, case['seed'] ^ (d + 1), case['refragment'][d])
        if case.get('nocp_batch'):
            def batch(packet: bytes, inner=None):
                if len(packet) >= 4 and packet[0] == 0x04 and packet[1] == 0x13:
                    k = packet[3]
                    pairs = [struct.unpack_from('<HH', packet, 4 + 4 * i) for i in range(k)]  # (handle, count) pairs
                    pairs = [(0x0EEE, 0)] + pairs
                    body = bytes([len(pairs)]) + b''.join(struct.pack('<HH', h, c) for h, c in pairs)
                    sim.fault('completion_report_batched_behind_a_foreign_handle')
                    return [bytes([0x04, 0x13, len(body)]) + body]
                return [packet]
            for d in range(2):
                prev = world[d].c2h.transform
                if prev is None:
                    world[d].c2h.transform = batch
                else:
                    world[d].c2h.transform = lambda pkt, prev=prev: [q for p in prev(pkt) for q in batch(p)]
        expected = [[], [], []]
        counter = [0]
        shape = []

        def payload(n):
            counter[0] += 1
            tag = counter[0].to_bytes(2, 'big')
            return (tag * (n // 2 + 1))[:n]

        def acl(handle, pb, body):
            return struct.pack('<BHH', 0x02, handle | pb << 12, len(body)) + body

        def inject_bad(d, kind, where):
            """Malformed fragment sequence on the path towards node 1-d... i.e. sent 'by' node d."""
            rx = 1 - d
            sim.fault(f'bad_fragments:{kind}:{where}')
            if where == 'host':
                ch = world[rx].c2h
                h = conns[rx].handle
                send = ch.inject
            else:
                ch = world[d].h2c
                h = conns[d].handle
                mons[d].injecting = True

                def send(pkt):
                    ch.inject(pkt)
            cid = BASE_CID + 9
            if kind == 'cont_no_start':
                send(acl(h, 1, b'\x99' * 9))
            elif kind == 'beyond_length':
                send(acl(h, 2 if where == 'host' else 0, struct.pack('<HH', 10, cid) + b'\x01' * 3))
                send(acl(h, 1, b'\x02' * 20))
            elif kind == 'start_over_start':
                send(acl(h, 2 if where == 'host' else 0, struct.pack('<HH', 50, cid) + b'\x03' * 5))
            elif kind == 'short_start':
                send(acl(h, 2 if where == 'host' else 0, b'\x07'))
            elif kind == 'interrupted_then_completed':
                # the start of a PDU that is never finished, a complete well-formed PDU in one packet (it arrives), then a stray
                # continuation that would have completed the abandoned one exactly: nothing may be built from the two halves
                good = b'\x06' * 7
                expected[rx].append((BASE_CID + 10, good))
                send(acl(h, 2 if where == 'host' else 0, struct.pack('<HH', 20, cid) + b'\x11' * 8))
                send(acl(h, 2 if where == 'host' else 0, struct.pack('<HH', len(good), BASE_CID + 10) + good))
                send(acl(h, 1, b'\xee' * 12))
            elif kind == 'exact_then_extra':
                # a complete, well-formed PDU followed by a stray continuation: the PDU must arrive, the stray not
                good = b'\x04' * 6
                expected[rx].append((BASE_CID + 10, good))
                send(acl(h, 2 if where == 'host' else 0, struct.pack('<HH', 6, BASE_CID + 10) + good[:3]))
                send(acl(h, 1, good[3:]))
                send(acl(h, 1, b'\x05' * 4))
            mons[d].injecting = False

        for op in case['ops']:
            if op[0] == 'pdu':
                _, d, c, ln = op
                cid = BASE_CID + c
                p = payload(ln)
                expected[1 - d].append((cid, p))
                world[d].host.send_l2cap_pdu(conns[d].handle, cid, p)
                shape.append(('pdu', d))
            elif op[0] == 'pdu_other':
                if other0 is not None and other is not None:
                    p = payload(op[1])
                    expected[2].append((BASE_CID + 1, p))
                    world[0].host.send_l2cap_pdu(other0.handle, BASE_CID + 1, p)
                    sim.probe('pdu_for_second_peer_through_the_shared_queue')
                    shape.append(('pdu_other',))
            elif op[0] == 'settle':
                sim.loop.settle(vt_budget=600.0, step_budget=2_000_000)
            elif op[0] == 'drop_other':
                if other is not None:
                    sim.fault('other_connection_disconnected_mid_transfer')
                    sim.loop.create_task(other.disconnect())
                    other = None
                    shape.append(('drop_other',))
            elif op[0] == 'bad':
                st = sim.loop.settle(vt_budget=600.0, step_budget=2_000_000)
                inject_bad(op[1], op[2], op[3])
                sim.loop.settle(vt_budget=600.0, step_budget=2_000_000)
                shape.append(('bad', op[2], op[3]))
        st = sim.loop.settle(vt_budget=900.0, step_budget=3_000_000)
        if st != 'done':
            sim.violation_once('budget', f'acl:no-quiescence:{st}', 'transfer did not settle within the budget')
        faulty = any(o[0] == 'bad' for o in case['ops'])
        for d in range(nb):
            exp, got = expected[d], received[d]
            # PDUs delivered on the fault CID must never appear (they are all malformed)
            leaked = [g for g in got if g[0] == BASE_CID + 9]
            got = [g for g in got if g[0] != BASE_CID + 9]
            if leaked:
                sim.violation_once('leak', 'acl:malformed-sequence-delivered-a-pdu', f'{len(leaked)} PDU(s) delivered from malformed fragments')
            if got != exp:
                tag = 'after-malformed' if faulty else 'clean'
                if len(got) < len(exp) and got == exp[:len(got)] or (len(got) < len(exp) and all(g in exp for g in got)):
                    missing = [e for e in exp if e not in got]
                    lens = sorted({len(m[1]) for m in missing})
                    cls = 'ge65532' if lens and lens[0] >= 65532 and len(lens) <= 2 else 'other'
                    sim.violation_once('lost', f'acl:pdu-lost:{tag}:len={cls}', f'{len(missing)} PDU(s) never arrived at node {d}; payload lengths {lens[:5]}')
                elif sorted(got) == sorted(exp):
                    sim.violation_once('order', f'acl:pdu-reordered:{tag}', f'node {d} got the PDUs in a different order')
                elif len(got) > len(exp):
                    sim.violation_once('dup', f'acl:pdu-duplicated-or-spurious:{tag}', f'node {d} got {len(got)} PDUs for {len(exp)} sent')
                else:
                    k = next((i for i, (a, b) in enumerate(zip(got, exp)) if a != b), None)
                    sim.violation_once('corrupt', f'acl:pdu-corrupted:{tag}', f'node {d} PDU #{k}: got cid/len {got[k][0]:#x}/{len(got[k][1])} expected {exp[k][0]:#x}/{len(exp[k][1])}')
        for m in mons:
            sim.trace.shape(m.index, tuple(m.frag_counts))
        sim.trace.shape(tuple(shape))
        return result(sim, nontrivial=sim.probes['fragment_count>1'] > 0)
    finally:
        sim.close()


# --------------------------------------------------------------------------------------
def gen_iso(rng, tier, seed):
    L = rng.choice([5, 6, 8, 27, 64, 251, 960, 4095, rng.randint(5, 300)])
    sdus = []
    for _ in range(rng.randint(1, 12)):
        fam = [1, 2, L - 5, L - 4, L - 3, L, L + 1, 2 * L - 4, 2 * L - 3, 4095, rng.randint(1, 4095), rng.randint(1, 64)]
        sdus.append(min(4095, max(1, rng.choice(fam))))
    return {'iso_len': L, 'iso_num': rng.choice([1, 2, 4, 64]), 'sdus': sdus, 'start_seq': rng.choice([0, 0, 65530, 65535]), '_lists': ['sdus']}


def run_iso(case):
    from bumble import hci
    from bumble.host import DataPacketQueue, Host, IsoLink

    sim = Sim(case['seed'])
    try:
        L = case['iso_len']
        got = []

        class Sink:
            def on_packet(self, packet: bytes) -> None:
                got.append(bytes(packet))

        async def mk():
            h = Host()
            h.set_packet_sink(Sink())
            h.ready = True
            q = DataPacketQueue(L, case['iso_num'], h.send_hci_packet)
            h.iso_packet_queue = q
            h.cis_links[0x0060] = IsoLink(handle=0x0060, packet_queue=q)
            h.cis_links[0x0060].packet_sequence_number = case['start_seq']
            return h

        host = sim.must(mk(), 'host')
        seq = case['start_seq']
        consumed = 0
        for n in case['sdus']:
            sdu = bytes((i * 7 + n) & 0xFF for i in range(n))
            host.send_iso_sdu(0x0060, sdu)
            # drain: complete packets as the scripted controller
            sim.loop.settle()
            for _ in range(10000):
                new = got[consumed:]
                if not new:
                    break
                consumed = len(got)
                host.on_packet(bytes(hci.HCI_Number_Of_Completed_Packets_Event(connection_handles=[0x0060], num_completed_packets=[len(new)])))
                sim.loop.settle()
            # reference reassembly of what was emitted for this SDU
            seq_expected = seq
            seq = (seq + 1) & 0xFFFF
            _check_sdu(sim, case, got, sdu, seq_expected, L)
            got.clear()
            consumed = 0
        sim.trace.shape(L, tuple(case['sdus']))
        return result(sim, nontrivial=sim.probes['iso_fragment_count>1'] > 0)
    finally:
        sim.close()


def _check_sdu(sim, case, packets, sdu, seq_expected, L):
    if not packets:
        sim.violation_once('isonone', 'iso:nothing-emitted', f'SDU of {len(sdu)} bytes produced no HCI ISO packet')
        return
    data = b''
    for i, p in enumerate(packets):
        if p[0] != 0x05:
            sim.violation_once('isotype', 'iso:wrong-packet-type', f'type {p[0]}')
            return
        info, ln = struct.unpack_from('<HH', p, 1)
        pb, ts = (info >> 12) & 3, (info >> 14) & 1
        body = p[5:]
        if ln != len(body):
            sim.violation_once('isohdr', 'iso:length-field-mismatch', f'data_total_length={ln}, {len(body)} bytes follow')
        if len(body) > L:
            sim.violation_once('isolen', 'iso:fragment-exceeds-controller-length', f'{len(body)} > {L}')
        first = i == 0
        last = i == len(packets) - 1
        want = (0b10 if last else 0b00) if first else (0b11 if last else 0b01)
        if pb != want:
            sim.violation_once('isopb', 'iso:wrong-pb-flag', f'fragment {i + 1}/{len(packets)} has pb={pb:02b}, expected {want:02b}')
        off = 0
        if ts:
            off += 4
        if first:
            psn, info2 = struct.unpack_from('<HH', body, off)
            off += 4
            if (info2 & 0x0FFF) != len(sdu):
                sim.violation_once('isosdulen', 'iso:wrong-sdu-length', f'iso_sdu_length={info2 & 0xFFF}, SDU is {len(sdu)}')
            if psn != seq_expected:
                sim.violation_once('isoseq', 'iso:wrong-sequence-number', f'packet_sequence_number={psn}, expected {seq_expected}')
        data += body[off:]
    if len(packets) > 1:
        sim.probe('iso_fragment_count>1')
    if data != sdu:
        sim.violation_once('isodata', 'iso:reassembly-mismatch', f'reassembled {len(data)} bytes != SDU {len(sdu)} bytes')


SCENARIOS = {'acl': (gen_acl, run_acl), 'iso': (gen_iso, run_iso)}
