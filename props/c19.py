"""C19 — SDP answers and AVDTP/AVCTP messages are reassembled exactly across PDUs; AVDTP stream states agree.

Real: sdp.Client / sdp.Server, avdtp.Protocol.send_message + MessageAssembler, avctp.Protocol + MessageAssembler,
avdtp Stream / LocalSource / LocalSink / Listener, over real L2CAP on a BR/EDR link.
Stub: scripted fragmenting peers for the AVDTP fault cases and for AVCTP (written from the AVCTP specification).
"""
from __future__ import annotations

import asyncio
import struct

from bsim.sim import PROFILE_NAMES, HarnessError, Sim, World, describe_task, result

PROPERTY = 'C19'
PLAN = {
    'quick': [('sdp', 1100), ('avdtp_frag', 900), ('avctp_frag', 700), ('streams', 500), ('slow_acceptor', 300)],
    'thorough': [('sdp', 40000), ('avdtp_frag', 30000), ('avctp_frag', 20000), ('streams', 20000), ('slow_acceptor', 10000)],
}
WALL_CAP = {'quick': 150, 'thorough': 1500}
EVIDENCE = {
    'level': 'exploration',
    'rule': ('sdp: 1-12 generated records (attribute ids, nested sequences, total size around multiples of the per-response capacity), '
             'client L2CAP MTU 48..65535, 1-3 clients querying at the same time from different peers, patterns of 1-12 UUIDs present / '
             'absent / 16- and 128-bit forms, attribute id lists and ranges, all three transactions; avdtp_frag: message payloads '
             '0..255 fragments against peer MTU 48..2048 in both directions, with one message of a sequence hit by a dropped, '
             'duplicated or mislabelled fragment from a scripted peer; avctp_frag: a scripted peer fragments as the AVCTP specification '
             'lays out (PID in the start packet only) with the same faults; streams: random sequences of configure / open / start / '
             'suspend / close / abort from the initiating side. Non-trivial: a continuation / more than one fragment / at least three '
             'stream procedures; distinct = distinct shape digest of the scenario parameters and outcome. Also: SDP queries abandoned right after the request went out; a second local source trying to configure the busy end-point; scenario slow_acceptor: one AVDTP transaction answered late while 0-40 later transactions complete.'),
    'real': ['bumble.sdp.Client', 'bumble.sdp.Server', 'bumble.avdtp.Protocol', 'bumble.avdtp.MessageAssembler', 'bumble.avctp.Protocol',
             'bumble.avctp.MessageAssembler', 'bumble.avdtp.Stream/LocalSource/LocalSink/Listener', 'bumble.l2cap', 'device/host/controller/link'],
    'stub': ['scripted fragment sender (AVDTP faults, AVCTP)', 'SDP reference matcher and attribute filter'],
    'assumptions': ['SDP results are compared only when the answer fits in the client continuation limit (64 rounds)',
                    'attribute id lists are ascending and non-overlapping (as the SDP specification requires)',
                    'AVDTP messages are limited to 255 fragments'],
}

SDP_UUIDS = ['1101', '110A', '110B', '1200', '0100', '0003', 'F0F1', '5B8E2E35-2D8F-4A9C-9A1E-3F5C7D1B2A01', '5B8E2E35-2D8F-4A9C-9A1E-3F5C7D1B2A02',
             '1234', '2345', '3456', '0000110C-0000-1000-8000-00805F9B34FB']


# ====================================================================================== SDP
def gen_sdp(rng, tier, seed):
    if rng.random() < 0.03:
        # an answer that needs (almost) exactly as many continuation rounds as the client is willing to make: at MTU 48 a
        # ServiceSearch response carries 9 handles, so 559..576 matching records take 63 or 64 rounds
        n = rng.choice([559, 567, 568, 570, 576])
        u = SDP_UUIDS[0]
        records = [[0x10000 + r * 3, [[0x0001, ['uuid', u]]]] for r in range(n)]
        return {'records': records, 'nclients': 1, 'mtus': [48, 48, 48], 'queries': [['search_services', [u], [[0, 0xFFFF]], 0]], 'profile': 'zero',
                'concurrent': False, 'abandon': [None]}
    if rng.random() < 0.03:
        # a long answer for a client with a comfortable MTU: few rounds at that MTU (it would take more than the client's limit in
        # minimum-MTU chunks)
        u = SDP_UUIDS[0]
        records = [[0x10000, [[0x0001, ['uuid', u]]] + [[0x0100 + k, ['text', 700]] for k in range(rng.choice([4, 5, 6]))]]]
        return {'records': records, 'nclients': 1, 'mtus': [rng.choice([256, 1024, 4096])] * 3, 'queries': [[rng.choice(['get_attributes', 'search_attributes']), [u], [[0, 0xFFFF]], 0]],
                'profile': 'zero', 'concurrent': False, 'abandon': [None]}
    nrec = rng.choice([1, 2, 3, 5, 8, 12])
    records = []
    for r in range(nrec):
        attrs = []
        ids = sorted(rng.sample([0x0001, 0x0004, 0x0005, 0x0006, 0x0009, 0x0100, 0x0101, 0x0200, 0x0301, 0x0311, 0x4000, 0xFFF0], rng.randint(1, 6)))
        for aid in ids:
            kind = rng.choice(['uuid', 'uuids', 'nested', 'text', 'int'])
            if kind == 'uuid':
                v = ['uuid', rng.choice(SDP_UUIDS)]
            elif kind == 'uuids':
                v = ['seq', [['uuid', u] for u in rng.sample(SDP_UUIDS, rng.randint(1, 4))]]
            elif kind == 'nested':
                v = ['seq', [['seq', [['uuid', rng.choice(SDP_UUIDS)], ['u16', rng.randrange(65536)]]], ['seq', [['uuid', rng.choice(SDP_UUIDS)]]]]]
            elif kind == 'text':
                v = ['text', rng.choice([1, 10, 60, 200, 700])]
            else:
                v = ['u32', rng.randrange(1 << 32)]
            attrs.append([aid, v])
        records.append([0x10000 + r * 3, attrs])
    queries = []
    for _ in range(rng.randint(1, 4)):
        pat = rng.sample(SDP_UUIDS, rng.choice([1, 1, 2, 2, 3, 5, 12]))
        if rng.random() < 0.4:
            ids = [[0, 0xFFFF]]
        else:
            pool = sorted(rng.sample([0x0001, 0x0004, 0x0005, 0x0009, 0x0100, 0x0200, 0x4000], rng.randint(1, 4)))
            ids = []
            for p in pool:
                if rng.random() < 0.3:
                    ids.append([p, min(0xFFFF, p + rng.choice([0, 1, 0x100]))])
                else:
                    ids.append(p)
            # make ranges non-overlapping and ascending
            flat, last = [], -1
            for x in ids:
                lo, hi = (x, x) if isinstance(x, int) else x
                if lo <= last:
                    continue
                flat.append(x)
                last = hi
            ids = flat
        queries.append([rng.choice(['search_services', 'get_attributes', 'search_attributes']), pat, ids, rng.randrange(nrec)])
    return {'records': records, 'nclients': rng.choice([1, 1, 2, 3]), 'mtus': [rng.choice([48, 64, 128, 672, 2048, 65535]) for _ in range(3)],
            'queries': queries, 'profile': rng.choice(PROFILE_NAMES), 'concurrent': rng.random() < 0.7,
            # a query of the same kind that the caller gives up (cancels, as a timeout would) right after the request went out
            'abandon': [rng.sample(SDP_UUIDS, rng.choice([1, 2])) if rng.random() < 0.3 else None for _ in queries]}


def _de(v):
    from bumble import core, sdp

    k = v[0]
    if k == 'uuid':
        return sdp.DataElement.uuid(core.UUID(v[1]))
    if k == 'seq':
        return sdp.DataElement.sequence([_de(x) for x in v[1]])
    if k == 'text':
        return sdp.DataElement.text_string(bytes((65 + i % 26) for i in range(v[1])))
    if k == 'u16':
        return sdp.DataElement.unsigned_integer_16(v[1])
    return sdp.DataElement.unsigned_integer_32(v[1])


def _uuid128(u: str) -> bytes:
    u = u.replace('-', '')
    if len(u) == 4:
        u = '0000' + u + '00001000800000805F9B34FB'
    return bytes.fromhex(u)


def _contains(v, target: bytes) -> bool:
    if v[0] == 'uuid':
        return _uuid128(v[1]) == target
    if v[0] == 'seq':
        return any(_contains(x, target) for x in v[1])
    return False


def _ref_match(records, pattern):
    out = []
    for handle, attrs in records:
        if all(any(_contains(v, _uuid128(u)) for _, v in attrs) for u in pattern):
            out.append(handle)
    return out


def _ref_attrs(attrs, ids):
    out = []
    for aid, v in sorted(attrs, key=lambda a: a[0]):
        for x in ids:
            lo, hi = (x, x) if isinstance(x, int) else x
            if lo <= aid <= hi:
                out.append((aid, bytes(_de(v))))
                break
    return out


def _classic_world(sim, n):
    world = World(sim, n, classic=True)
    world.power_on()
    return world


def _classic_connect(sim, world, a, b):
    got = []
    world[b].device.once('connection', got.append)
    c = sim.must(world[a].device.connect(world[b].controller.public_address, transport=0), 'classic connect')
    sim.loop.drive(lambda: bool(got), 10.0)
    sim.loop.settle()
    if not got:
        raise HarnessError('peer never saw the BR/EDR connection')
    return c, got[0]


def run_sdp(case):
    from bumble import core, sdp

    sim = Sim(case['seed'], case.get('profile', 'zero'), slow_node='N0')
    try:
        k = case['nclients']
        world = _classic_world(sim, k + 1)
        srv = world[0].device
        srv.sdp_service_records = {h: [sdp.ServiceAttribute(aid, _de(v)) for aid, v in attrs] for h, attrs in case['records']}
        clients = []
        for i in range(k):
            c, _ = _classic_connect(sim, world, i + 1, 0)
            cl = sdp.Client(c, mtu=case['mtus'][i])
            sim.must(cl.connect(), 'sdp connect')
            clients.append(cl)
        sim.loop.settle()
        records = case['records']
        rec_by_handle = dict((h, a) for h, a in records)

        async def one(cl, q):
            kind, pat, ids, pick = q
            uu = [core.UUID(u) for u in pat]
            idl = [x if isinstance(x, int) else (x[0], x[1]) for x in ids]
            if kind == 'search_services':
                return await cl.search_services(uu)
            if kind == 'get_attributes':
                return await cl.get_attributes(records[pick % len(records)][0], idl)
            return await cl.search_attributes(uu, idl)

        def expect(q, mtu):
            kind, pat, ids, pick = q
            if kind == 'search_services':
                want = _ref_match(records, pat)
                rounds = (len(want) + max(1, (mtu - 11) // 4) - 1) // max(1, (mtu - 11) // 4)
                return sorted(want), rounds
            if kind == 'get_attributes':
                want = _ref_attrs(records[pick % len(records)][1], ids)
                size = sum(3 + len(v) for _, v in want) + 3
                return want, (size + mtu - 10) // max(1, mtu - 9)
            want = []
            for h in _ref_match(records, pat):
                a = _ref_attrs(rec_by_handle[h], ids)
                if a:
                    want.append(a)
            size = sum(sum(3 + len(v) for _, v in a) + 3 for a in want) + 3
            return want, (size + mtu - 10) // max(1, mtu - 9)

        def normal(kind, got):
            if kind == 'search_services':
                return sorted(got)
            if kind == 'get_attributes':
                return [(a.id, bytes(a.value)) for a in got]
            return [[(a.id, bytes(a.value)) for a in lst] for lst in got]

        for qi, q in enumerate(case['queries']):
            tasks = []
            ab = (case.get('abandon') or [None] * len(case['queries']))[qi]
            if ab is not None:
                for cl in clients:
                    ta = sim.loop.create_task(one(cl, [q[0], ab, q[2], q[3] + 1]))
                    sim.loop.drive(lambda: cl.pending_request is not None or ta.done(), vt_budget=5.0, step_budget=100_000)
                    if not ta.done():
                        ta.cancel()
                        sim.fault('sdp_query_abandoned_in_flight')
                # no settling here: the answer to the abandoned request is still on its way when the next query starts
                sim.loop.drive(lambda: True, 0.0)
            if case['concurrent'] and k > 1:
                tasks = [(i, sim.loop.create_task(one(cl, q))) for i, cl in enumerate(clients)]
                sim.probe('sdp_clients_queried_simultaneously')
                st = sim.loop.drive(lambda: all(t.done() for _, t in tasks), vt_budget=120.0, step_budget=2_000_000)
            else:
                for i, cl in enumerate(clients):
                    t = sim.loop.create_task(one(cl, q))
                    sim.loop.drive(t.done, vt_budget=120.0, step_budget=2_000_000)
                    tasks.append((i, t))
            mode = ('one-client' if k == 1 else ('clients-simultaneous' if case['concurrent'] else 'clients-connected-queries-sequential'))
            for i, t in tasks:
                want, rounds = expect(q, min(case['mtus'][i], 65535))
                # (the round count of a ServiceSearch answer is exact; the others are estimates, with a margin)
                if rounds > (64 if q[0] == 'search_services' else 60):
                    sim.probe('sdp_answer_beyond_continuation_limit')
                    if not t.done():
                        t.cancel()
                    continue
                if rounds > 1:
                    sim.probe('sdp_continuation_used')
                if not t.done():
                    sim.violation_once('sdp-hang', f'sdp:{q[0]}:no-answer:{mode}', f'client {i} never got its answer: {describe_task(t)}')
                    t.cancel()
                    continue
                if t.exception() is not None:
                    sim.violation_once('sdp-exc', f'sdp:{q[0]}:raised:{type(t.exception()).__name__}:{mode}', repr(t.exception()))
                    continue
                got = normal(q[0], t.result())
                if got != want:
                    if q[0] == 'search_services':
                        extra = [h for h in got if h not in want]
                        missing = [h for h in want if h not in got]
                        what = 'extra-records' if extra and not missing else ('missing-records' if missing and not extra else 'different-records')
                        sim.violation_once('sdp-match', f'sdp:search_services:{what}:pattern={"multi" if len(q[1]) > 1 else "single"}:{mode}',
                                           f'pattern {q[1]} returned {[hex(h) for h in got]}, records containing every UUID: {[hex(h) for h in want]}')
                    else:
                        sim.violation_once('sdp-attr', f'sdp:{q[0]}:wrong-result:rounds={"multi" if rounds > 1 else "one"}:pattern={"multi" if len(q[1]) > 1 else "single"}:{mode}',
                                           f'got {len(got)} entries, expected {len(want)} (MTU {case["mtus"][i]}, {rounds} response(s))')
            sim.loop.settle()
        sim.trace.shape(len(records), k, tuple(case['mtus'][:k]), tuple(q[0] for q in case['queries']))
        return result(sim, nontrivial=sim.probes['sdp_continuation_used'] > 0 or k > 1)
    finally:
        sim.close()


# ====================================================================================== AVDTP fragmentation
def gen_avdtp_frag(rng, tier, seed):
    mtus = [rng.choice([48, 49, 64, 335, 672, 2048]), rng.choice([48, 64, 335, 672, 2048])]
    msgs = []
    for _ in range(rng.randint(1, 8)):
        d = rng.randrange(2)
        F = mtus[1 - d] - 3
        size = rng.choice([0, 1, F - 1, F, F + 1, mtus[1 - d] - 2, mtus[1 - d] - 1, 2 * F, 2 * F + 1, 5 * F, rng.randint(0, 3000), 255 * F if rng.random() < 0.1 else 10])
        size = max(0, min(size, 255 * F, 40000))
        msgs.append([d, size, None])
    if rng.random() < 0.5 and msgs:
        i = rng.randrange(len(msgs))
        msgs[i][2] = rng.choice(['drop', 'dup', 'mislabel', 'drop_end', 'drop_start'])
    return {'mtus': mtus, 'msgs': msgs, 'profile': rng.choice(PROFILE_NAMES), '_lists': ['msgs']}


def _avdtp_fragments(label, mtype, sigid, payload, peer_mtu):
    """Reference AVDTP fragmentation (AVDTP 1.3 section 8.4)."""
    if len(payload) + 2 <= peer_mtu:
        return [bytes([label << 4 | 0 << 2 | mtype, sigid]) + payload]
    F = peer_mtu - 3
    # start packet carries 3 header bytes, continue/end 1: keep every packet within the MTU
    chunks = [payload[:F]]
    rest = payload[F:]
    C = peer_mtu - 1
    while rest:
        chunks.append(rest[:C])
        rest = rest[C:]
    out = [bytes([label << 4 | 1 << 2 | mtype, sigid, len(chunks)]) + chunks[0]]
    for i, c in enumerate(chunks[1:], start=2):
        pt = 3 if i == len(chunks) else 2
        out.append(bytes([label << 4 | pt << 2 | mtype]) + c)
    return out


def run_avdtp_frag(case):
    from bumble import avdtp, l2cap

    sim = Sim(case['seed'], case.get('profile', 'zero'), slow_node='N1')
    try:
        world = _classic_world(sim, 2)
        c0, c1 = _classic_connect(sim, world, 0, 1)
        accepted = []
        world[1].device.create_l2cap_server(l2cap.ClassicChannelSpec(psm=avdtp.AVDTP_PSM, mtu=case['mtus'][1]), handler=accepted.append)
        ch0 = sim.must(c0.create_l2cap_channel(spec=l2cap.ClassicChannelSpec(psm=avdtp.AVDTP_PSM, mtu=case['mtus'][0])), 'l2cap')
        sim.loop.settle()
        ch = [ch0, accepted[0]]
        protos = [sim.must(_mk(avdtp.Protocol, ch[0])), sim.must(_mk(avdtp.Protocol, ch[1]))]
        rx = [[], []]
        for i in (0, 1):
            protos[i].message_assembler.callback = lambda label, msg, i=i: rx[i].append((label, int(msg.signal_identifier), int(msg.message_type), bytes(msg.payload)))
        frames = [[], []]  # L2CAP SDUs each side sent (to check fragment sizes)
        for i in (0, 1):
            orig = ch[i].write
            ch[i].write = lambda data, i=i, orig=orig: (frames[i].append(bytes(data)), orig(data))[1]
        want = [[], []]
        allowed = [[], []]  # the intact form of a message that was sent with a fault (may surface, e.g. when only a duplicate trails it)
        label = 0
        for d, size, fault in case['msgs']:
            label = (label + 1) % 16
            payload = bytes(((label * 11 + k) & 0xFF) for k in range(size))
            peer_mtu = ch[d].peer_mtu
            if fault is None:
                m = avdtp.Message()
                m.signal_identifier = avdtp.SignalIdentifier(1)
                m.message_type = avdtp.Message.MessageType.GENERAL_REJECT
                m.payload = payload
                n0 = len(frames[d])
                sim.call(protos[d].send_message, label, m)
                sent = frames[d][n0:]
                if len(sent) > 1:
                    sim.probe('fragment_count>1')
                for f in sent:
                    if len(f) > peer_mtu:
                        sim.violation_once('frag-mtu', 'avdtp:fragment-exceeds-peer-mtu', f'{len(f)}-byte packet for a peer MTU of {peer_mtu} (payload {size})')
                want[1 - d].append((label, 1, 1, payload))
            else:
                frs = _avdtp_fragments(label, 1, 1, payload, peer_mtu)
                intact_payload = payload
                if len(frs) < 2:
                    intact_payload = payload + bytes(peer_mtu)
                    frs = _avdtp_fragments(label, 1, 1, intact_payload, peer_mtu)
                allowed[1 - d].append((label, 1, 1, intact_payload))
                sim.fault(f'frag_{fault}')
                k = len(frs) // 2
                if fault == 'drop':
                    del frs[k]
                elif fault == 'drop_end':
                    del frs[-1]
                elif fault == 'drop_start':
                    del frs[0]
                elif fault == 'dup':
                    frs.insert(k, frs[k])
                elif fault == 'mislabel':
                    b0 = frs[-1][0]
                    frs[-1] = bytes([(b0 & 0x0F) | (((b0 >> 4) + 5) % 16) << 4]) + frs[-1][1:]
                for f in frs:
                    sim.call(ch[d].write, f)
                # the broken message itself must not be delivered as if it were intact; it costs only itself
            sim.loop.settle(vt_budget=60.0, step_budget=1_000_000)
        sim.loop.settle(vt_budget=60.0, step_budget=1_000_000)
        faulty = any(m[2] for m in case['msgs'])
        for i in (0, 1):
            got = [g for g in rx[i]]
            exp = want[i]
            # a broken message may or may not surface (e.g. a duplicate of a middle fragment makes it too long); intact ones must all arrive, in order
            it = iter(got)
            missing = [e for e in exp if not any(g == e for g in it)]
            if missing:
                lens = [len(m[3]) for m in missing]
                sim.violation_once('frag-lost', f'avdtp:message-not-reassembled:{"after-broken-sequence" if faulty else "clean"}',
                                   f'{len(missing)} intact message(s) not delivered byte-identically (payload lengths {lens[:4]}, peer MTU {case["mtus"]})')
            spurious = [g for g in got if g not in exp and g not in allowed[i]]
            if spurious:
                # every injected fault breaks the sequence detectably (packet count or label): the broken message is discarded, never
                # delivered as something nobody sent
                kinds = sorted({m[2] for m in case['msgs'] if m[2]})
                sim.violation_once('frag-extra', f'avdtp:spurious-message:{"after-" + "+".join(kinds) if faulty else "clean"}',
                                   f'{len(spurious)} message(s) delivered that nobody sent (lengths {[len(g[3]) for g in spurious][:4]})')
        sim.trace.shape(tuple(case['mtus']), tuple((m[0], m[1] // 40, m[2]) for m in case['msgs']))
        return result(sim, nontrivial=sim.probes['fragment_count>1'] > 0 or faulty)
    finally:
        sim.close()


async def _mk(cls, *args):
    return cls(*args)


# ====================================================================================== AVCTP fragmentation
def gen_avctp_frag(rng, tier, seed):
    msgs = []
    for _ in range(rng.randint(1, 6)):
        size = rng.choice([0, 1, 10, 40, 100, 500, rng.randint(0, 1500)])
        frag = rng.choice([0, 0, 1, 5, 20, 40])  # 0 = single packet
        msgs.append([size, frag, None, rng.random() < 0.5])
    if rng.random() < 0.4:
        cands = [m for m in msgs if m[1] > 0 and m[0] > m[1]]
        if cands:
            rng.choice(cands)[2] = rng.choice(['drop', 'dup', 'mislabel'])
    return {'msgs': msgs, 'profile': rng.choice(PROFILE_NAMES), '_lists': ['msgs']}


def _avctp_fragments(label, is_command, pid, payload, frag):
    """AVCTP 1.4 section 6.1: PID in single and start packets only; start also carries the packet count."""
    cr = 0 if is_command else 1
    if frag and len(payload) > 255 * frag:
        frag = (len(payload) + 254) // 255
    if frag == 0 or len(payload) <= frag:
        return [bytes([label << 4 | 0 << 2 | cr << 1]) + struct.pack('>H', pid) + payload]
    chunks = [payload[i:i + frag] for i in range(0, len(payload), frag)]
    out = [bytes([label << 4 | 1 << 2 | cr << 1, len(chunks)]) + struct.pack('>H', pid) + chunks[0]]
    for i, c in enumerate(chunks[1:], start=2):
        pt = 3 if i == len(chunks) else 2
        out.append(bytes([label << 4 | pt << 2 | cr << 1]) + c)
    return out


def run_avctp_frag(case):
    from bumble import avctp, l2cap

    sim = Sim(case['seed'], case.get('profile', 'zero'), slow_node='N1')
    try:
        world = _classic_world(sim, 2)
        c0, c1 = _classic_connect(sim, world, 0, 1)
        accepted = []
        world[1].device.create_l2cap_server(l2cap.ClassicChannelSpec(psm=avctp.AVCTP_PSM, mtu=2048), handler=accepted.append)
        ch0 = sim.must(c0.create_l2cap_channel(spec=l2cap.ClassicChannelSpec(psm=avctp.AVCTP_PSM, mtu=2048)), 'l2cap')
        sim.loop.settle()
        proto = sim.must(_mk(avctp.Protocol, accepted[0]))
        rx = []
        PID = 0x110E
        proto.register_command_handler(PID, lambda label, payload: rx.append((label, True, bytes(payload))))
        proto.register_response_handler(PID, lambda label, payload: rx.append((label, False, bytes(payload) if payload is not None else None)))
        want = []
        label = 0
        faulty = False
        for size, frag, fault, is_cmd in case['msgs']:
            label = (label + 1) % 16
            payload = bytes(((label * 7 + k) & 0xFF) for k in range(size))
            frs = _avctp_fragments(label, is_cmd, PID, payload, frag)
            if len(frs) > 1:
                sim.probe('fragment_count>1')
            if fault and len(frs) > 1:
                faulty = True
                sim.fault(f'frag_{fault}')
                k = len(frs) // 2
                if fault == 'drop':
                    del frs[k]
                elif fault == 'dup':
                    frs.insert(k, frs[k])
                else:
                    b0 = frs[-1][0]
                    frs[-1] = bytes([(b0 & 0x0F) | (((b0 >> 4) + 3) % 16) << 4]) + frs[-1][1:]
            else:
                want.append((label, is_cmd, payload, len(frs)))
            for f in frs:
                sim.call(ch0.write, f)
            sim.loop.settle(vt_budget=60.0)
        it = iter(rx)
        for (label_, is_cmd, payload, nfr) in want:
            if not any(g == (label_, is_cmd, payload) for g in it):
                kind = 'fragmented' if nfr > 1 else 'single'
                tag = 'after-broken-sequence' if faulty else 'clean'
                sim.violation_once(f'avctp-lost:{kind}', f'avctp:conformant-{kind}-message-not-delivered:{tag}',
                                   f'{len(payload)}-byte message sent as {nfr} spec-conformant packet(s) was not delivered byte-identically')
                break
        sim.trace.shape(tuple((m[0] // 20, m[1], m[2]) for m in case['msgs']))
        return result(sim, nontrivial=sim.probes['fragment_count>1'] > 0)
    finally:
        sim.close()


# ====================================================================================== AVDTP stream states
OPS = ['configure', 'open', 'start', 'stop', 'close', 'abort']
# reference acceptor state machine (AVDTP 1.3 section 9): state -> op -> next state (None = refused)
REF = {
    'IDLE': {'configure': 'CONFIGURED', 'abort': 'IDLE'},
    'CONFIGURED': {'open': 'OPEN', 'start': 'STREAMING', 'abort': 'IDLE'},  # Stream.start() auto-opens from CONFIGURED
    'OPEN': {'start': 'STREAMING', 'close': 'IDLE', 'abort': 'IDLE'},
    'STREAMING': {'stop': 'OPEN', 'close': 'IDLE', 'abort': 'IDLE'},
}


def gen_streams(rng, tier, seed):
    ops = []
    state = 'IDLE'
    for _ in range(rng.randint(2, 14)):
        if rng.random() < 0.65:
            legal = list(REF[state].keys())
            op = rng.choice(legal)
        else:
            op = rng.choice(OPS + ['configure2', 'start_with_unknown', 'suspend_with_unknown', 'raw_open', 'raw_start', 'raw_suspend', 'raw_close', 'raw_close'])
        ops.append(op)
        nxt = REF[state].get(op)
        if nxt:
            state = nxt
    if state == 'CONFIGURED' and rng.random() < 0.5:
        ops.append('open_without_transport_then_abort')  # ends the history
    return {'ops': ops, 'profile': rng.choice(PROFILE_NAMES)}


# protocol-level commands sent past the local Stream object (which would refuse them itself): where the acceptor must refuse them
RAW_ILLEGAL = {'raw_open': ('IDLE', 'OPEN', 'STREAMING'), 'raw_start': ('IDLE', 'CONFIGURED', 'STREAMING'), 'raw_suspend': ('IDLE', 'CONFIGURED', 'OPEN'),
               'raw_close': ('IDLE', 'CONFIGURED')}


def _codec(a2dp, avdtp, source):
    SBC = a2dp.SbcMediaCodecInformation
    if source:
        info = SBC(sampling_frequency=SBC.SamplingFrequency.SF_44100, channel_mode=SBC.ChannelMode.JOINT_STEREO, block_length=SBC.BlockLength.BL_16,
                   subbands=SBC.Subbands.S_8, allocation_method=SBC.AllocationMethod.LOUDNESS, minimum_bitpool_value=2, maximum_bitpool_value=53)
    else:
        info = SBC(sampling_frequency=SBC.SamplingFrequency.SF_48000 | SBC.SamplingFrequency.SF_44100, channel_mode=SBC.ChannelMode.MONO | SBC.ChannelMode.JOINT_STEREO | SBC.ChannelMode.STEREO,
                   block_length=SBC.BlockLength.BL_4 | SBC.BlockLength.BL_8 | SBC.BlockLength.BL_12 | SBC.BlockLength.BL_16, subbands=SBC.Subbands.S_4 | SBC.Subbands.S_8,
                   allocation_method=SBC.AllocationMethod.LOUDNESS | SBC.AllocationMethod.SNR, minimum_bitpool_value=2, maximum_bitpool_value=53)
    return avdtp.MediaCodecCapabilities(media_type=avdtp.MediaType.AUDIO, media_codec_type=a2dp.CodecType.SBC, media_codec_information=info)


def run_streams(case):
    from bumble import a2dp, avdtp

    sim = Sim(case['seed'], case.get('profile', 'zero'), slow_node='N1')
    try:
        world = _classic_world(sim, 2)
        sinks = []
        listener = avdtp.Listener.for_device(world[1].device)
        listener.on('connection', lambda server: sinks.append(server.add_sink(_codec(a2dp, avdtp, False))))
        c0, c1 = _classic_connect(sim, world, 0, 1)
        client = sim.must(avdtp.Protocol.connect(c0), 'avdtp connect')
        sim.loop.settle()
        eps = list(sim.must(client.discover_remote_endpoints(), 'discover'))
        if len(eps) != 1 or not sinks:
            raise HarnessError('sink endpoint not discovered')
        remote = eps[0]
        source = client.add_source(_codec(a2dp, avdtp, True), None)
        stream = None
        ref = 'IDLE'
        done_ops = 0

        def sink_state():
            s = sinks[0].stream
            return 'IDLE' if s is None else avdtp.State(s.state).name

        def src_state():
            return 'IDLE' if stream is None else avdtp.State(stream.state).name

        source2 = client.add_source(_codec(a2dp, avdtp, True), None)
        for op in case['ops']:
            before_src, before_snk = src_state(), sink_state()
            if op == 'configure2':
                # a second local source tries to configure the remote end-point that the first stream is using: must be refused
                if ref == 'IDLE':
                    continue
                st, t = sim.run(client.create_stream(source2, remote), 60.0)
                sim.loop.settle(vt_budget=10.0)
                sim.probe('second_source_tried_a_busy_endpoint')
                if st != 'done':
                    sim.violation_once('stream-hang', f'stream:configure2-hangs:from={ref}', describe_task(t))
                    t.cancel()
                    break
                if t.exception() is None:
                    sim.violation_once('stream-illegal', f'stream:end-point-in-use-configured-again:from={ref}', f'a second Set Configuration on the busy end-point was accepted; sink now {sink_state()}')
                    break
                if (src_state(), sink_state()) != (before_src, before_snk):
                    sim.violation_once('stream-illegal-change', f'stream:refused-configure2-changed-state:from={ref}', f'source {before_src}->{src_state()}, sink {before_snk}->{sink_state()}')
                    break
                done_ops += 1
                continue
            if op in RAW_ILLEGAL:
                if ref not in RAW_ILLEGAL[op] or (ref == 'IDLE' and stream is not None and op == 'raw_open'):
                    continue
                seid = remote.seid
                coro = {'raw_open': lambda: client.open(seid), 'raw_start': lambda: client.start([seid]), 'raw_suspend': lambda: client.suspend([seid]),
                        'raw_close': lambda: client.close(seid)}[op]()
                st, t = sim.run(coro, 60.0)
                sim.loop.settle(vt_budget=10.0)
                sim.probe('protocol_level_command_illegal_in_the_acceptor_state')
                if st != 'done':
                    sim.violation_once('stream-hang', f'stream:{op}-hangs:from={ref}', describe_task(t))
                    t.cancel()
                    break
                rsp = None if t.exception() is not None else t.result()
                accepted = rsp is not None and 'Reject' not in type(rsp).__name__
                if accepted:
                    sim.violation_once('stream-illegal', f'stream:illegal-{op}-accepted:from={ref}', f'{type(rsp).__name__}; sink now {sink_state()}')
                    break
                if sink_state() != before_snk:
                    sim.violation_once('stream-illegal-change', f'stream:refused-{op}-changed-state:from={ref}', f'sink {before_snk}->{sink_state()}')
                    break
                done_ops += 1
                continue
            if op == 'open_without_transport_then_abort':
                # Open accepted (legal in CONFIGURED) but the transport channel is never connected; then Abort: the end-point is free again
                if ref != 'CONFIGURED' or stream is None:
                    continue
                st, t = sim.run(client.open(remote.seid), 60.0)
                sim.loop.settle(vt_budget=5.0)
                st2, t2 = sim.run(client.abort(remote.seid), 60.0)
                sim.loop.settle(vt_budget=10.0)
                sim.loop.advance(1.0)
                sim.probe('abort_of_an_open_stream_without_transport_channel')
                if st != 'done' or st2 != 'done':
                    sim.violation_once('stream-hang', 'stream:open-without-transport-then-abort-hangs', describe_task(t if st != 'done' else t2))
                    (t if st != 'done' else t2).cancel()
                    break
                if sink_state() != 'IDLE':
                    sim.violation_once('stream-stuck', f'stream:sink-not-idle-after-abort:without-transport:{sink_state()}', 'Set Configuration, Open, Abort without a transport channel')
                    break
                st3, t3 = sim.run(client.create_stream(source2, remote), 60.0)
                sim.loop.settle(vt_budget=5.0)
                if st3 != 'done' or t3.exception() is not None:
                    sim.violation_once('stream-stuck', 'stream:end-point-still-in-use-after-abort:without-transport', str(st3 if st3 != 'done' else repr(t3.exception())))
                done_ops += 1
                break
            if op in ('start_with_unknown', 'suspend_with_unknown'):
                # a Start / Suspend naming the stream's end-point AND an end-point that does not exist: refused, nothing changes
                if stream is None or ref not in ('OPEN', 'STREAMING'):
                    continue
                seids = [remote.seid, 0x3E]
                st, t = sim.run(client.start(seids) if op.startswith('start') else client.suspend(seids), 60.0)
                sim.loop.settle(vt_budget=10.0)
                sim.probe('multi_seid_command_with_an_unknown_seid')
                if st != 'done':
                    sim.violation_once('stream-hang', f'stream:{op}-hangs:from={ref}', describe_task(t))
                    t.cancel()
                    break
                if t.exception() is None:
                    sim.violation_once('stream-illegal', f'stream:{op}-accepted:from={ref}', 'a command naming an unknown end-point was accepted')
                    break
                if (src_state(), sink_state()) != (before_src, before_snk):
                    sim.violation_once('stream-illegal-change', f'stream:refused-{op}-changed-state:from={ref}', f'source {before_src}->{src_state()}, sink {before_snk}->{sink_state()}')
                    break
                done_ops += 1
                continue
            legal = REF[ref].get(op)
            if op == 'configure':
                coro = client.create_stream(source, remote) if (stream is None or stream.state == avdtp.State.IDLE) else stream.configure()
            elif stream is None:
                continue  # nothing to operate on yet: only configure is meaningful
            elif op == 'abort':
                coro = stream.remote_endpoint.abort()
            else:
                coro = getattr(stream, op)()
            st, t = sim.run(coro, 60.0)
            if st != 'done':
                sim.violation_once('stream-hang', f'stream:{op}-hangs:from={ref}', describe_task(t))
                t.cancel()
                break
            sim.loop.settle(vt_budget=10.0)
            sim.loop.advance(0.05)
            failed = t.exception() is not None
            if op == 'configure' and not failed and stream is None:
                stream = t.result()
            done_ops += 1
            a, b = src_state(), sink_state()
            if legal is None:
                if not failed:
                    sim.violation_once('stream-illegal', f'stream:illegal-{op}-accepted:from={ref}', f'{op} in state {ref} did not fail; source {a}, sink {b}')
                if (a, b) != (before_src, before_snk):
                    sim.violation_once('stream-illegal-change', f'stream:refused-{op}-changed-state:from={ref}', f'source {before_src}->{a}, sink {before_snk}->{b}')
            else:
                if failed:
                    sim.violation_once('stream-legal-failed', f'stream:legal-{op}-refused:from={ref}:{type(t.exception()).__name__}', repr(t.exception()))
                    break
                ref = legal
            if a != b:
                sim.violation_once('stream-differ', f'stream:states-differ:after={op}:from={before_src}', f'source is {a}, sink is {b} after {op} (reference: {ref})')
                break
            if legal is not None and a != ref:
                sim.violation_once('stream-ref', f'stream:unexpected-state:after={op}', f'both ends in {a}, reference machine says {ref}')
                break
        sim.trace.shape(tuple(case['ops']))
        return result(sim, nontrivial=done_ops >= 3)
    finally:
        sim.close()


# ====================================================================================== AVDTP: a slow acceptor and many transactions overtaking it
def gen_slow(rng, tier, seed):
    return {'n': rng.choice([0, 1, 5, 14, 15, 16, 17, 20, 33, 40]), 'delay': rng.choice([0.5, 2.0, 10.0]), 'slow_first': rng.random() < 0.8,
            'profile': rng.choice(PROFILE_NAMES)}


def run_slow(case):
    """One transaction is answered late by the acceptor while n later transactions on the same signalling channel complete."""
    from bumble import a2dp, avdtp

    sim = Sim(case['seed'], case.get('profile', 'zero'), slow_node='N1')
    try:
        world = _classic_world(sim, 2)
        servers = []
        listener = avdtp.Listener.for_device(world[1].device)

        def on_connection(server):
            server.add_sink(_codec(a2dp, avdtp, False))
            servers.append(server)
            real = server.on_get_all_capabilities_command
            real2 = server.on_get_capabilities_command

            async def slow_all(command):
                await asyncio.sleep(case['delay'])
                return await real(command)

            async def slow_one(command):
                await asyncio.sleep(case['delay'])
                return await real2(command)
            server.on_get_all_capabilities_command = slow_all
            server.on_get_capabilities_command = slow_one
        listener.on('connection', on_connection)
        c0, c1 = _classic_connect(sim, world, 0, 1)
        client = sim.must(avdtp.Protocol.connect(c0), 'avdtp connect')
        sim.loop.settle()
        seid = 1
        base = sim.must(client.discover_remote_endpoints(), 'discover')
        want = sorted(e.seid for e in base)
        if not want:
            raise HarnessError('no endpoint')
        seid = want[0]
        slow = sim.loop.create_task(client.get_capabilities(seid))
        sim.loop.settle(vt_budget=0.2)
        quick_ok = 0
        for i in range(case['n']):
            # a plain Discover transaction (not slowed down by the acceptor)
            st, t = sim.run(client.send_command(avdtp.Discover_Command()), 30.0)
            if st != 'done' or t.exception() is not None or sorted(e.seid for e in getattr(t.result(), 'endpoints', [])) != want:
                why = st if st != 'done' else (type(t.exception()).__name__ if t.exception() else 'wrong-result')
                sim.violation_once('overtake', f'avdtp:transaction-behind-a-slow-one-failed:{why}', f'discover #{i + 1} of {case["n"]} while Get Capabilities is pending: {why}')
                if not t.done():
                    t.cancel()
                break
            quick_ok += 1
        if quick_ok >= 16:
            sim.probe('sixteen_transactions_overtook_a_pending_one')
        sim.loop.drive(slow.done, vt_budget=case['delay'] + 40.0, step_budget=400_000)
        if not slow.done():
            sim.violation_once('slow', f'avdtp:late-response-never-delivered:overtaken-by={"ge16" if quick_ok >= 16 else "lt16"}',
                               f'Get Capabilities answered after {case["delay"]} s and {quick_ok} other transactions: the caller never got the response')
            slow.cancel()
        elif slow.exception() is not None:
            sim.violation_once('slow', f'avdtp:late-response-failed:{type(slow.exception()).__name__}', repr(slow.exception()))
        sim.trace.shape(min(case['n'], 17), case['delay'])
        return result(sim, nontrivial=quick_ok > 0)
    finally:
        sim.close()


SCENARIOS = {'slow_acceptor': (gen_slow, run_slow), 'sdp': (gen_sdp, run_sdp), 'avdtp_frag': (gen_avdtp_frag, run_avdtp_frag), 'avctp_frag': (gen_avctp_frag, run_avctp_frag),
             'streams': (gen_streams, run_streams)}
