"""C06 — the virtual link connects the right peers and delivers only between them.

Real: LocalLink, Controller (advertising, connection tables, establishment, teardown, scan reports),
Host, Device (connect, advertising, scanning, disconnect). Stub: nothing but the latency channels.
"""
from __future__ import annotations

import asyncio

from bsim.sim import PROFILE_NAMES, HarnessError, Sim, World, describe_task, enable_extended_advertising, result

PROPERTY = 'C06'
PLAN = {
    'quick': [('le', 2400), ('classic', 500)],
    'thorough': [('le', 80000), ('classic', 15000)],
}
WALL_CAP = {'quick': 150, 'thorough': 1500}
EVIDENCE = {
    'level': 'exploration',
    'rule': ('le: 2-5 full stacks on one link; seeded histories of advertise (public/random own address, legacy or extended '
             'advertising per node, drawn advertising and scan-response payloads), scan (active/passive), connect (public/random '
             'own address), data transfer on a test fixed channel, disconnect by either side or both at once, plus three concurrent '
             'shapes: an incoming connection while an outgoing one is pending, two centrals racing for one advertiser, connect to '
             'a silent address with timeout; classic: connect/transfer/disconnect between 2-3 BR/EDR devices. Non-trivial: at least '
             'one connection was established and carried data; distinct = distinct sequence of (op kind, address types, advertising mode).'),
    'real': ['bumble.link.LocalLink', 'bumble.controller.Controller', 'bumble.host.Host', 'bumble.device.Device', 'bumble.ll', 'bumble.lmp'],
    'stub': ['latency channels on HCI and on the air (one FIFO per receiving controller)'],
    'assumptions': ['privacy / resolvable addresses off', 'order-preserving loss-free channels', 'at most one link per pair of devices'],
}

TEST_CID = 0x0055
RPA_TIMEOUT = 60
ADV_PAYLOADS = [b'\x02\x01\x06', b'\x02\x01\x06\x05\x09Bsim', b'\x02\x01\x04\x03\x03\x0f\x18\x09\x09LongName', b'', b'\x1e\xff' + bytes(range(29))]
RSP_PAYLOADS = [b'\x04\x09Rsp', b'\x03\x19\x40\x00', b'', b'\x1e\xff' + bytes(range(100, 129)), b'\x02\x0a\x00']


def gen_le(rng, tier, seed):
    n = rng.choice([2, 2, 3, 3, 4, 5])
    ext = [rng.random() < 0.35 for _ in range(n)]
    privacy = [rng.random() < 0.25 for _ in range(n)]  # resolvable private own address, rotated every le_rpa_timeout
    ops = []
    adv = {}  # node -> own type
    links = []  # (central, peripheral)
    scanning = {}

    def linked(a, b):
        return (a, b) in links or (b, a) in links

    for _ in range(rng.randint(3, 18 if tier == 'quick' else 30)):
        r = rng.random()
        if r < 0.22:
            d = rng.randrange(n)
            if d in adv:
                continue
            own = rng.choice(['public', 'random'])
            ops.append(['adv', d, own, rng.randrange(len(ADV_PAYLOADS)), rng.randrange(len(RSP_PAYLOADS))])
            adv[d] = own
        elif r < 0.25 and adv:
            # the advertising data changes while the advertiser is on the air
            ops.append(['adv_update', rng.choice(sorted(adv)), rng.randrange(len(ADV_PAYLOADS))])
        elif r < 0.42:
            cands = [(a, b) for b in adv for a in range(n) if a != b and not linked(a, b)]
            if not cands:
                continue
            a, b = rng.choice(cands)
            ops.append(['connect', a, b, rng.choice(['public', 'random']), adv[b]])
            links.append((a, b))
            del adv[b]
        elif r < 0.62:
            if not links:
                continue
            k = rng.randrange(len(links))
            ops.append(['send', list(links[k]), rng.randrange(2), rng.choice([1, 1, 2, 3]), rng.choice([0, 1, 20, 23, 100])])
        elif r < 0.72:
            if not links:
                continue
            k = rng.randrange(len(links))
            ops.append([rng.choice(['disc', 'disc', 'disc_both']), list(links[k]), rng.randrange(2), rng.choice([0, 0, 1, 2])])  # last: payloads sent right before
            links.pop(k)
        elif r < 0.80:
            d = rng.randrange(n)
            if d in scanning:
                ops.append(['scan_stop', d])
                del scanning[d]
            else:
                act = rng.random() < 0.5
                ops.append(['scan', d, act])
                scanning[d] = act
        elif r < 0.86 and n >= 3:
            trip = rng.sample(range(n), 3)
            a, b, c = trip
            if a in adv or b in adv or linked(a, b) or linked(c, a):
                continue
            ops.append(['cross', a, b, c, rng.choice(['public', 'random']), rng.choice(['public', 'random']), round(rng.random() * 0.05, 4)])
            links.append((a, b))
            links.append((c, a))
        elif r < 0.90 and n >= 3:
            trip = rng.sample(range(n), 3)
            a, c, b = trip
            if b in adv or linked(a, b) or linked(c, b):
                continue
            # (on an extended advertiser the set may have a random address of its own)
            ops.append(['race', a, c, b, rng.choice(['public', 'random', 'own'] if ext[b] else ['public', 'random'])])
            break  # the model cannot say who wins; the run ends with this op
        elif r < 0.93:
            a = rng.randrange(n)
            ops.append(['connect_absent', a])
        elif r < 0.95 and n >= 3 and any(ext):
            # one peripheral, several advertising sets (sharing the device address or with an address of their own),
            # centrals connect to them one after the other
            d = rng.choice([i for i in range(n) if ext[i]])
            cents = [c for c in range(n) if c != d and not linked(c, d)]
            if d in adv or len(cents) < 2:
                continue
            rng.shuffle(cents)
            cents = cents[:rng.choice([2, 2, 3])]
            kinds = [rng.choice(['random', 'random', 'public', 'own']) for _ in cents]
            if rng.random() < 0.5:
                kinds[1] = kinds[0] if kinds[0] != 'own' else 'random'
                kinds[0] = kinds[1]
            ops.append(['advsets', d, kinds, cents, [rng.choice(['public', 'random']) for _ in cents]])
            links.extend((c, d) for c in cents)
        elif r < 0.975:
            # a node's random address changes (RPA rotation by timer when privacy is on, else a new static address)
            d = rng.randrange(n)
            if d in adv or d in scanning:
                continue
            ops.append(['readdr', d])
        else:
            ops.append(['wait', round(rng.random() * 0.2, 3)])
    # the last thing in some histories with three or more devices: one device drops off the link (no goodbye); the connections among
    # the others must be none the wiser and keep carrying data
    vanish = rng.randrange(n) if n >= 3 and rng.random() < 0.3 else None
    return {'n': n, 'ext': ext, 'privacy': privacy, 'profile': rng.choice(PROFILE_NAMES), 'slow': rng.randrange(n), 'ops': ops, 'vanish': vanish}


class Ctx:
    def __init__(self, sim, world, case):
        from bumble import hci

        self.hci = hci
        self.sim = sim
        self.world = world
        self.n = case['n']
        self.conn_events = [[] for _ in range(self.n)]  # new 'connection' events per node
        self.rx = []  # (node, handle, payload)
        self.adverts = [[] for _ in range(self.n)]
        self.links = {}  # (central, peripheral) -> [conn_c, conn_p]
        self.advertising = {}  # node -> (own, adv payload, rsp payload, ext)
        self.scanning = {}
        self.counter = 0
        for i, nd in enumerate(world.nodes):
            nd.device.on('connection', lambda c, i=i: self.conn_events[i].append(c))
            nd.device.on('advertisement', lambda a, i=i: self.adverts[i].append(a))
            nd.host.on('l2cap_pdu', lambda h, cid, pdu, i=i: self.rx.append((i, h, bytes(pdu))) if cid == TEST_CID else None)

    def addr(self, node, own):
        d = self.world[node].device
        if own.startswith('set:'):  # an advertising set's own random address
            return self.hci.Address(own[4:], self.hci.Address.RANDOM_DEVICE_ADDRESS)
        return d.public_address if own == 'public' else d.random_address

    def own_type(self, own):
        return self.hci.OwnAddressType.PUBLIC if own == 'public' else self.hci.OwnAddressType.RANDOM


def _same(a, b) -> bool:
    return bytes(a) == bytes(b) and (a.address_type & 1) == (b.address_type & 1)


def run_le(case):
    sim = Sim(case['seed'], case.get('profile', 'zero'), slow_node=f'N{case.get("slow", 0)}')
    try:
        n = case['n']
        privacy = case.get('privacy') or [False] * n
        from bumble.device import DeviceConfiguration
        world = World(sim, n, device_configs=[DeviceConfiguration(le_privacy_enabled=True, le_rpa_timeout=RPA_TIMEOUT) if privacy[i] else None for i in range(n)])
        for i in range(n):
            if case['ext'][i]:
                enable_extended_advertising(world[i].controller)
        world.power_on()
        cx = Ctx(sim, world, case)
        established = 0
        carried = 0
        for op in case['ops']:
            kind = op[0]
            mode = lambda d: 'ext' if case['ext'][d] else 'legacy'
            if kind == 'wait':
                sim.loop.advance(op[1])
            elif kind == 'adv':
                _, d, own, ai, ri = op
                dev = world[d].device
                st, t = sim.run(dev.start_advertising(own_address_type=cx.own_type(own), advertising_data=ADV_PAYLOADS[ai],
                                                      scan_response_data=RSP_PAYLOADS[ri], advertising_interval_min=30.0,
                                                      advertising_interval_max=30.0), 10.0)
                if st != 'done' or t.exception() is not None:
                    sim.violation_once('adv', f'advertise-failed:{mode(d)}:{own}', f'start_advertising: {st} {t.exception() if st == "done" else describe_task(t)}')
                    break
                cx.advertising[d] = (own, ADV_PAYLOADS[ai], RSP_PAYLOADS[ri])
                for s in cx.scanning:  # a new advertising epoch: reports of an earlier one do not count
                    sim.loop.settle(vt_budget=1.0)
                    cx.adverts[s] = [x for x in cx.adverts[s] if not _same(x.address, cx.addr(d, own))]
                sim.loop.advance(0.065)
                _check_adverts(cx, d, mode(d))
            elif kind == 'adv_update':
                _, d, ai = op
                if d not in cx.advertising:
                    continue
                dev = world[d].device
                own, old_adv, rsp = cx.advertising[d]
                new_adv = ADV_PAYLOADS[ai]
                if dev.legacy_advertising_set is not None:
                    st, t = sim.run(dev.legacy_advertising_set.set_advertising_data(new_adv), 10.0)
                else:
                    dev.advertising_data = new_adv
                    st, t = sim.run(dev.send_sync_command(cx.hci.HCI_LE_Set_Advertising_Data_Command(advertising_data=new_adv)), 10.0)
                if st != 'done' or t.exception() is not None:
                    sim.violation_once('adv', f'advertising-data-update-failed:{mode(d)}', f'{st} {t.exception() if st == "done" else describe_task(t)}')
                    break
                sim.probe('advertising_data_changed_while_advertising')
                cx.advertising[d] = (own, new_adv, rsp)
                for s_ in cx.scanning:  # reports of the earlier data may still be in flight: let them land, then forget them
                    sim.loop.settle(vt_budget=1.0)
                    cx.adverts[s_] = [x for x in cx.adverts[s_] if not _same(x.address, cx.addr(d, own))]
                sim.loop.advance(0.065)
                _check_adverts(cx, d, mode(d))
            elif kind == 'scan':
                _, d, active = op
                if d in cx.scanning:
                    continue
                cx.adverts[d].clear()
                st, t = sim.run(world[d].device.start_scanning(legacy=True, active=active), 10.0)
                if st != 'done' or t.exception() is not None:
                    sim.violation_once('scan', f'scan-failed:{mode(d)}', f'start_scanning: {st}')
                    break
                cx.scanning[d] = active
                sim.loop.advance(0.065)
                for a in list(cx.advertising):
                    _check_adverts(cx, a, mode(a))
            elif kind == 'scan_stop':
                st, t = sim.run(world[op[1]].device.stop_scanning(legacy=True), 10.0)
                cx.scanning.pop(op[1], None)
                sim.loop.settle(vt_budget=1.0)
            elif kind == 'connect':
                _, a, b, own, bown = op
                ok = _connect(cx, a, b, own, bown, f'{mode(b)}:central={own}:peripheral={bown}')
                if not ok:
                    break
                established += 1
            elif kind == 'connect2':
                _, a, b, c = op
                for ev in cx.conn_events:
                    ev.clear()
                tb = sim.loop.create_task(world[a].device.connect(world[b].device.public_address, transport=0))
                tc = sim.loop.create_task(world[a].device.connect(world[c].device.public_address, transport=0))
                st = sim.loop.drive(lambda: tb.done() and tc.done(), vt_budget=30.0)
                sim.probe('two_outgoing_classic_connects_in_flight')
                bad = False
                for t, peer in ((tb, b), (tc, c)):
                    if not t.done():
                        sim.violation_once('connect', 'connect-hang:classic:two-in-flight', describe_task(t))
                        t.cancel()
                        bad = True
                    elif t.exception() is not None:
                        sim.violation_once('connect', f'connect-failed:classic:two-in-flight:{type(t.exception()).__name__}', repr(t.exception()))
                        bad = True
                if bad:
                    break
                sim.loop.settle(vt_budget=1.0)
                sim.loop.advance(0.01)
                for t, peer in ((tb, b), (tc, c)):
                    conn = t.result()
                    if not bytes(conn.peer_address) == bytes(world[peer].device.public_address):
                        sim.violation_once('wrongconn', 'connect-returned-wrong-connection:classic:two-in-flight', f'connect(N{peer}) returned a connection to {conn.peer_address}')
                        bad = True
                        break
                    pev = [x for x in cx.conn_events[peer] if bytes(x.peer_address) == bytes(world[a].device.public_address)]
                    if len(pev) != 1:
                        sim.violation_once('pevent', f'peripheral-connection-event:classic:two-in-flight:count={len(pev)}', f'N{peer} saw {[(str(x.peer_address)) for x in cx.conn_events[peer]]}')
                        bad = True
                        break
                    cx.links[(a, peer)] = [conn, pev[0]]
                    established += 1
                if bad:
                    break
            elif kind == 'send':
                _, (a, b), side, count, size = op
                if not _send(cx, a, b, side, count, size):
                    break
                carried += 1
            elif kind in ('disc', 'disc_both'):
                _, (a, b), side = op[:3]
                if not _disconnect(cx, a, b, side, kind == 'disc_both', op[3] if len(op) > 3 else 0):
                    break
            elif kind == 'cross':
                if not _cross(cx, op, mode):
                    break
                established += 2
            elif kind == 'race':
                _race(cx, op, mode)
                cx.links = None  # the model cannot say who won: no final table check
                break
            elif kind == 'connect_absent':
                if not _connect_absent(cx, op[1]):
                    break
            elif kind == 'advsets':
                k = _advsets(cx, op)
                if k is None:
                    break
                established += k
            elif kind == 'readdr':
                if not _readdr(cx, op[1], privacy[op[1]]):
                    break
            sim.trace.shape(kind, tuple(str(x) for x in op[1:5] if not isinstance(x, (list, float))))
        if not sim.violations:
            _vanish(cx, case.get('vanish'))
        _final_tables(cx)
        return result(sim, nontrivial=established > 0 and carried > 0)
    finally:
        sim.close()


def _check_adverts(cx, a, mode):
    """Every scanner has been given advertiser a's advertising data (and scan response when active)."""
    if a not in cx.advertising:
        return
    own, adv_data, rsp_data = cx.advertising[a]
    addr = cx.addr(a, own)

    state = {}  # scanner -> [next index, seen, plain, rsp, adv_ok, rsp_ok]

    def verdict(s, active):
        """Incremental: only the reports that came in since the last call are looked at."""
        st = state.setdefault(s, [0, [], [], [], False, not active])
        lst = cx.adverts[s]
        for x in lst[st[0]:]:
            if not _same(x.address, addr):
                continue
            st[1].append(x)
            if x.is_scan_response:
                st[3].append(x)
                if active:
                    # the advertising data is either reported alone or merged in front of the scan response
                    if bytes(x.data) == adv_data + bytes(x.data_bytes):
                        st[4] = True
                    if bytes(x.data_bytes) == rsp_data:
                        st[5] = True
            else:
                st[2].append(x)
                if bytes(x.data_bytes) == adv_data:
                    st[4] = True
        st[0] = len(lst)
        return st[1], st[2], st[3], st[4], st[5]

    def reported():
        return all(v[3] and v[4] for v in [verdict(s, act) for s, act in cx.scanning.items() if s != a])

    # many advertising intervals (30 ms) plus the worst link and HCI latency of the slowest profile
    cx.sim.loop.drive(reported, 2.0)
    for s, active in cx.scanning.items():
        if s == a:
            continue
        seen, plain, rsp, adv_ok, rsp_ok = verdict(s, active)
        if not seen:
            cx.sim.violation_once('noadv', f'scan:no-report:{mode}:{own}', f'scanner N{s} got no report for advertiser N{a} within 2 s (60 advertising intervals)')
            continue
        cx.sim.probe('scan_report_seen')
        if not adv_ok:
            got = sorted({bytes(x.data_bytes).hex() for x in seen})
            kind = 'active' if active else 'passive'
            cx.sim.violation_once('advdata', f'scan:adv-data-mismatch:{mode}:{kind}', f'N{s}: no report carries N{a} advertising data {adv_data.hex()}; reports carry {got[:3]}')
        if not rsp_ok:
            got = sorted({bytes(x.data_bytes).hex() for x in rsp})
            cx.sim.violation_once('rspdata', f'scan:scan-response-mismatch:{mode}', f'active scanner N{s}: scan response of N{a} should be {rsp_data.hex()}, reports carry {got[:3]}')


def _connect(cx, a, b, own, bown, facts):
    sim, world = cx.sim, cx.world
    for ev in cx.conn_events:
        ev.clear()
    target = cx.addr(b, bown)
    st, t = sim.run(world[a].device.connect(target, own_address_type=cx.own_type(own), timeout=None), 30.0)
    if st != 'done':
        sim.violation_once('connect', f'connect-hang:{facts}', f'connect(N{a}->N{b}) {st}: {describe_task(t)}')
        t.cancel()
        return False
    if t.exception() is not None:
        sim.violation_once('connect', f'connect-failed:{facts}:{type(t.exception()).__name__}', f'connect(N{a}->N{b}) raised {t.exception()!r}')
        return False
    conn = t.result()
    sim.loop.settle(vt_budget=1.0)
    sim.loop.advance(0.01)
    return _check_pair(cx, a, b, own, bown, conn, facts)


def _check_pair(cx, a, b, own, bown, conn, facts, tolerate_extra_on=()):
    sim, world = cx.sim, cx.world
    ok = True
    if conn.role != 0 or not _same(conn.peer_address, cx.addr(b, bown)):
        sim.violation_once('wrongconn', 'connect-returned-wrong-connection:' + facts.split(':')[0], f'connect(N{a}->N{b}) returned role={conn.role} peer={conn.peer_address}, wanted CENTRAL to {cx.addr(b, bown)}')
        return False
    if not _same(conn.self_address, cx.addr(a, own)):
        sim.violation_once('selfaddr', f'central-self-address:{facts}', f'central self_address {conn.self_address} != {cx.addr(a, own)}')
        ok = False
    pev = [c for c in cx.conn_events[b] if c.role == 1 and _same(c.peer_address, cx.addr(a, own))]
    if len(pev) != 1:
        others = [(str(c.peer_address), c.role) for c in cx.conn_events[b]]
        sim.violation_once('pevent', f'peripheral-connection-event:{facts}:count={len(pev)}', f'N{b} should report exactly one connection from {cx.addr(a, own)}; saw {others}')
        return False
    pc = pev[0]
    if not _same(pc.self_address, cx.addr(b, bown)):
        sim.violation_once('pselfaddr', f'peripheral-self-address:{facts}', f'peripheral self_address {pc.self_address} != {cx.addr(b, bown)}')
        ok = False
    for i in range(cx.n):
        if i in (a, b) or i in tolerate_extra_on:
            continue
        if cx.conn_events[i]:
            sim.violation_once('third', f'third-party-connection-event:{facts}', f'N{i} reported a connection while N{a} connected to N{b}')
            ok = False
    for node, c in ((a, conn), (b, pc)):
        dev = world[node].device
        if dev.connections.get(c.handle) is not c:
            sim.violation_once('handle', f'handle-not-live:{facts}', f'N{node}: connection handle {c.handle:#x} does not name this connection')
            ok = False
        live = [x for (k, v) in cx.links.items() for idx, x in enumerate(v) if k[idx] == node]
        if any(x.handle == c.handle for x in live):
            sim.violation_once('handle', f'handle-not-distinct:{facts}', f'N{node}: handle {c.handle:#x} already in use by another live connection')
            ok = False
    cx.links[(a, b)] = [conn, pc]
    cx.advertising.pop(b, None)
    return ok


def _send(cx, a, b, side, count, size, conns=None):
    sim, world = cx.sim, cx.world
    key = (a, b) if ((a, b) in cx.links or conns is not None) else (b, a)
    conns = conns if conns is not None else cx.links[key]
    src_node = key[side]
    dst_node = key[1 - side]
    src, dst = conns[side], conns[1 - side]
    cx.rx.clear()
    sent = []
    for _ in range(count):
        cx.counter += 1
        p = cx.counter.to_bytes(4, 'big') + bytes((cx.counter + i) & 0xFF for i in range(size))
        sent.append(p)
        world[src_node].host.send_l2cap_pdu(src.handle, TEST_CID, p)
    sim.loop.settle(vt_budget=1.0)
    own_c = 'public' if src.self_address.address_type == 0 else 'random'
    role = 'central' if side == 0 else 'peripheral'
    facts = f'sender={role}:sender_addr={own_c}'
    got_right = [p for (nd, h, p) in cx.rx if nd == dst_node and h == dst.handle]
    got_wrong = [(nd, h) for (nd, h, p) in cx.rx if not (nd == dst_node and h == dst.handle)]
    if got_wrong:
        sim.violation_once('misdeliver', f'data-delivered-elsewhere:{facts}', f'payloads from N{src_node} reached {got_wrong[:3]} instead of N{dst_node}/{dst.handle:#x}')
        return False
    if got_right != sent:
        if not got_right:
            sim.violation_once('dataloss', f'data-lost:{facts}', f'{len(sent)} payload(s) from N{src_node} ({src.self_address}) never reached N{dst_node}')
        elif sorted(got_right) == sorted(sent):
            sim.violation_once('dataorder', f'data-reordered:{facts}', 'payloads arrived out of order')
        elif len(got_right) > len(sent):
            sim.violation_once('datadup', f'data-duplicated:{facts}', f'{len(got_right)} arrivals for {len(sent)} payloads')
        else:
            sim.violation_once('dataloss', f'data-partially-lost:{facts}', f'{len(got_right)}/{len(sent)} arrived')
        return False
    return True


def _disconnect(cx, a, b, side, both, last_words=0):
    sim, world = cx.sim, cx.world
    key = (a, b) if (a, b) in cx.links else (b, a)
    conns = cx.links.pop(key)
    seen = [[], []]
    for i in (0, 1):
        conns[i].on('disconnection', lambda reason, i=i: seen[i].append(reason))
    # data handed to the controller right before the disconnection is requested still belongs to the connection
    cx.rx.clear()
    said = []
    for _ in range(last_words if not both else 0):
        cx.counter += 1
        p = cx.counter.to_bytes(4, 'big') + b'last words'
        said.append(p)
        world[key[side]].host.send_l2cap_pdu(conns[side].handle, TEST_CID, p)
    if said:
        sim.probe('data_sent_right_before_disconnect')
    tasks = [sim.loop.create_task(conns[side].disconnect())]
    if both:
        tasks.append(sim.loop.create_task(conns[1 - side].disconnect()))
    st = sim.loop.drive(lambda: all(t.done() for t in tasks), 30.0)
    who = ('central' if side == 0 else 'peripheral') if not both else 'both'
    if st != 'done':
        sim.violation_once('dischang', f'disconnect-hang:by={who}', f'disconnect never returned: {[describe_task(t) for t in tasks if not t.done()][:2]}')
        for t in tasks:
            t.cancel()
        return False
    sim.loop.settle(vt_budget=1.0)
    sim.loop.advance(0.01)
    ok = True
    for i in (0, 1):
        if len(seen[i]) != 1:
            role = 'central' if i == 0 else 'peripheral'
            sim.violation_once('discevent', f'disconnection-not-reported:by={who}:to={role}:count={len(seen[i])}', f'{role} saw {len(seen[i])} disconnection events')
            ok = False
    for idx, node in enumerate(key):
        if conns[idx].handle in world[node].device.connections and world[node].device.connections[conns[idx].handle] is conns[idx]:
            sim.violation_once('disctable', f'connection-still-listed-after-disconnect:by={who}', f'N{node} still lists handle {conns[idx].handle:#x}')
            ok = False
    if not both:
        t = tasks[0]
        if t.exception() is not None:
            sim.violation_once('discexc', f'disconnect-raised:by={who}:{type(t.exception()).__name__}', repr(t.exception()))
            ok = False
    if said:
        got = [p for (nd, h, p) in cx.rx if nd == key[1 - side] and h == conns[1 - side].handle]
        if got != said:
            sim.violation_once('lastwords', f'data-sent-before-disconnect-lost:by={who}', f'{len(got)} of {len(said)} payloads sent right before disconnect() reached the peer')
            ok = False
    return ok


def _cross(cx, op, mode):
    """a advertises; a->b outgoing is pending (b advertises only after dt); c->a arrives meanwhile."""
    sim, world = cx.sim, cx.world
    _, a, b, c, own_a, own_b, dt = op
    for ev in cx.conn_events:
        ev.clear()
    facts = f'{mode(a)}/{mode(b)}:a={own_a}:b={own_b}'
    st, t = sim.run(world[a].device.start_advertising(own_address_type=cx.own_type(own_a), advertising_interval_min=30.0, advertising_interval_max=30.0), 10.0)
    if st != 'done' or t.exception() is not None:
        sim.violation_once('adv', f'advertise-failed:{mode(a)}:{own_a}', 'start_advertising in cross')
        return False
    t_ab = sim.loop.create_task(world[a].device.connect(cx.addr(b, own_b), own_address_type=cx.own_type(own_a), timeout=None))
    sim.loop.advance(0.002)
    t_ca = sim.loop.create_task(world[c].device.connect(cx.addr(a, own_a), own_address_type=cx.own_type('random'), timeout=None))
    sim.loop.advance(dt)

    async def adv_b():
        await world[b].device.start_advertising(own_address_type=cx.own_type(own_b), advertising_interval_min=30.0, advertising_interval_max=30.0)

    t_adv = sim.loop.create_task(adv_b())
    st = sim.loop.drive(lambda: t_ab.done() and t_ca.done() and t_adv.done(), 30.0)
    sim.probe('incoming_while_outgoing_pending')
    if st != 'done':
        which = 'outgoing' if not t_ab.done() else 'incoming'
        sim.violation_once('crosshang', f'cross-connect-hang:{which}:{facts}', f'{describe_task(t_ab if not t_ab.done() else t_ca)}')
        for t in (t_ab, t_ca, t_adv):
            t.cancel()
        return False
    sim.loop.settle(vt_budget=1.0)
    sim.loop.advance(0.01)
    for nm, t in (('outgoing', t_ab), ('incoming', t_ca)):
        if t.exception() is not None:
            sim.violation_once('crossexc', f'cross-connect-failed:{nm}:{facts}:{type(t.exception()).__name__}', repr(t.exception()))
            return False
    ok = _check_pair(cx, a, b, own_a, own_b, t_ab.result(), 'cross-outgoing:' + facts, tolerate_extra_on=(c,))
    ok = _check_pair(cx, c, a, 'random', own_a, t_ca.result(), 'cross-incoming:' + facts, tolerate_extra_on=(b,)) and ok
    return ok


def _race(cx, op, mode):
    """Two centrals connect to the same advertiser at the same time: at most one may believe it is connected
    unless the peripheral reports both."""
    sim, world = cx.sim, cx.world
    _, a, c, b, own_b = op
    for ev in cx.conn_events:
        ev.clear()
    if own_b == 'own':
        from bumble.device import AdvertisingParameters
        own_addr = cx.hci.Address(f'C{b}:00:00:00:0A:5E', cx.hci.Address.RANDOM_DEVICE_ADDRESS)
        params = AdvertisingParameters(own_address_type=cx.own_type('random'), primary_advertising_interval_min=30.0, primary_advertising_interval_max=30.0)
        st, t = sim.run(world[b].device.create_advertising_set(advertising_parameters=params, random_address=own_addr, advertising_data=ADV_PAYLOADS[1]), 10.0)
        own_b = 'set:' + str(own_addr).split('/')[0]
        sim.probe('race_for_an_advertising_set_with_its_own_address')
    else:
        st, t = sim.run(world[b].device.start_advertising(own_address_type=cx.own_type(own_b), advertising_interval_min=30.0, advertising_interval_max=30.0), 10.0)
    if st != 'done' or t.exception() is not None:
        return
    t1 = sim.loop.create_task(world[a].device.connect(cx.addr(b, own_b), timeout=1.0))
    t2 = sim.loop.create_task(world[c].device.connect(cx.addr(b, own_b), timeout=1.0))
    st = sim.loop.drive(lambda: t1.done() and t2.done(), 30.0)
    sim.probe('two_centrals_race')
    if st != 'done':
        sim.violation_once('racehang', f'race-connect-hang:{mode(b)}', 'a racing connect never returned')
        t1.cancel()
        t2.cancel()
        return
    sim.loop.settle(vt_budget=1.0)
    sim.loop.advance(0.01)
    # judged at quiescence: an initiator may be handed a connection that its controller then reports as never established
    # (Disconnection Complete, reason 0x3E - that is what a real controller does when the advertiser does not answer); what may not
    # be is a connection that stays up on the central's side and that the advertiser never reported
    winners = []
    for node, t in ((a, t1), (c, t2)):
        if t.exception() is None:
            conn = t.result()
            if world[node].device.connections.get(conn.handle) is conn:
                winners.append(node)
            else:
                sim.probe('race_loser_told_connection_failed_to_be_established')
    p_events = [x for x in cx.conn_events[b] if x.role == 1]
    if len(winners) > len(p_events):
        sim.violation_once('phantom', f'race:central-connected-but-peripheral-not:{mode(b)}', f'{len(winners)} centrals hold a live connection, the advertiser reported {len(p_events)}')


def _advsets(cx, op):
    """Several advertising sets on one peripheral; one central per set, one after the other."""
    from bumble.device import AdvertisingParameters
    sim, world = cx.sim, cx.world
    _, d, kinds, cents, cowns = op
    dev = world[d].device
    targets = []
    for k, kind in enumerate(kinds):
        own_addr = None
        if kind == 'own':
            own_addr = cx.hci.Address(f'C{d}:00:00:00:0{k}:5E', cx.hci.Address.RANDOM_DEVICE_ADDRESS)
        params = AdvertisingParameters(own_address_type=cx.own_type('public' if kind == 'public' else 'random'),
                                       primary_advertising_interval_min=30.0, primary_advertising_interval_max=30.0)
        st, t = sim.run(dev.create_advertising_set(advertising_parameters=params, random_address=own_addr, advertising_data=ADV_PAYLOADS[1]), 10.0)
        if st != 'done' or t.exception() is not None:
            sim.violation_once('adv', f'advertise-failed:ext-set:{kind}', f'create_advertising_set: {st} {t.exception() if st == "done" else describe_task(t)}')
            return None
        targets.append(kind if kind != 'own' else 'set:' + str(own_addr).split('/')[0])
    sim.probe('several_advertising_sets_on_one_peripheral')
    if len(set(targets)) < len(targets):
        sim.probe('advertising_sets_sharing_one_address')
    if any(x.startswith('set:') for x in targets):
        sim.probe('advertising_set_with_its_own_address')
    sim.loop.advance(0.065)
    done = 0
    for c, cown, bown in zip(cents, cowns, targets):
        if not _connect(cx, c, d, cown, bown, f'ext-sets:central={cown}:peripheral={bown.split(":")[0]}'):
            return None
        done += 1
        # data right away in both directions: the connection must be usable whatever set served it
        for side in (0, 1):
            if not _send(cx, c, d, side, 1, 5):
                return None
    return done


def _readdr(cx, d, private):
    """Node d's random address changes while its connections stay up."""
    sim, world = cx.sim, cx.world
    dev = world[d].device
    before = dev.random_address
    if private:
        sim.loop.advance(RPA_TIMEOUT + 1.0)
        sim.loop.settle(vt_budget=1.0)
        sim.probe('private_address_rotated_by_timer')
    else:
        cx.counter += 1
        new = cx.hci.Address(f'D{d}:00:00:00:{cx.counter & 0xFF:02X}:01', cx.hci.Address.RANDOM_DEVICE_ADDRESS)
        st, t = sim.run(dev.send_sync_command(cx.hci.HCI_LE_Set_Random_Address_Command(random_address=new)), 10.0)
        if st != 'done' or t.exception() is not None:
            sim.violation_once('readdr', 'set-random-address-failed', f'{st}')
            return False
        dev.random_address = new
        sim.probe('random_address_changed_while_connected' if any(d in k for k in cx.links) else 'random_address_changed')
    # the device and its controller name the same address: it is the one a peer would be told to connect to
    if bytes(world[d].controller.random_address) != bytes(dev.random_address):
        sim.violation_once('addrsplit', f'device-and-controller-disagree-on-random-address:{"rpa" if private else "static"}',
                           f'N{d}: device says {dev.random_address}, controller uses {world[d].controller.random_address} (was {before})')
        return False
    # connections made under the old address still carry data both ways
    for key in [k for k in cx.links if d in k]:
        for side in (0, 1):
            if not _send(cx, key[0], key[1], side, 1, 3):
                return False
    return True


def _connect_absent(cx, a):
    from bumble import hci

    sim, world = cx.sim, cx.world
    for ev in cx.conn_events:
        ev.clear()
    target = hci.Address('C5:11:22:33:44:55', hci.Address.RANDOM_DEVICE_ADDRESS)
    st, t = sim.run(world[a].device.connect(target, timeout=0.3), 30.0)
    if st != 'done':
        sim.violation_once('absent', 'connect-absent-hang', f'connect to a silent address with timeout never returned: {describe_task(t)}')
        t.cancel()
        return False
    sim.loop.settle(vt_budget=1.0)
    if t.exception() is None:
        sim.violation_once('absent', 'connect-absent-succeeded', f'connect to a silent address returned {t.result()}')
        return False
    if any(cx.conn_events):
        sim.violation_once('absent', 'connect-absent-connection-event', 'a connection was reported although nobody owns the address')
        return False
    return True


def _vanish(cx, node):
    """Device `node` drops off the link. Judged here: only the connections among the remaining devices (they stay up, report no
    disconnection and still deliver in both directions); what the vanished device's own peers are told is another property's matter."""
    if node is None or cx.links is None:
        return
    sim, world = cx.sim, cx.world
    others = {k: v for k, v in cx.links.items() if node not in k}
    if not others:
        return
    ended = []
    for k, conns in others.items():
        for i in (0, 1):
            conns[i].on('disconnection', lambda reason, k=k, i=i: ended.append((k, i, reason)))
    link = world[node].controller.link
    sim.call(link.remove_controller, world[node].controller)
    for k in [k for k in cx.links if node in k]:
        cx.links.pop(k)
    cx.vanished = node
    sim.loop.settle(vt_budget=1.0)
    sim.loop.advance(0.01)
    sim.probe('a_device_dropped_off_the_link_while_others_stay_connected')
    if ended:
        k, i, reason = ended[0]
        sim.violation_once('vanish', 'bystander-connection-ended-when-another-device-left-the-link', f'N{k[i]} was told that its connection N{k[0]}-N{k[1]} ended (reason {reason:#x}) when N{node} left')
        return
    for (a, b) in list(others):
        for side in (0, 1):
            if not _send(cx, a, b, side, 2, 5):
                return


def _final_tables(cx):
    """Live set per device equals the model (connections the harness believes are up)."""
    if cx.sim.violations or cx.links is None:
        return
    expect = [set() for _ in range(cx.n)]
    for (a, b), (ca, cb) in cx.links.items():
        expect[a].add(ca.handle)
        expect[b].add(cb.handle)
    for i, nd in enumerate(cx.world.nodes):
        if i == getattr(cx, 'vanished', None):
            continue  # (nobody tells a device that dropped off the link anything)
        have = set(nd.device.connections.keys())
        if have != expect[i]:
            cx.sim.violation_once('tables', 'final-connection-set-mismatch', f'N{i} lists handles {sorted(have)}, model says {sorted(expect[i])}')


# --------------------------------------------------------------------------------------
def gen_classic(rng, tier, seed):
    n = rng.choice([2, 2, 3])
    ops = []
    links = []
    for _ in range(rng.randint(2, 12)):
        r = rng.random()
        if r < 0.35:
            a, b = rng.sample(range(n), 2)
            if (a, b) in links or (b, a) in links:
                continue
            ops.append(['connect', a, b])
            links.append((a, b))
        elif r < 0.43 and n == 3:
            # two outgoing BR/EDR connections of one device in flight at the same time
            a = rng.randrange(3)
            b, c = [x for x in range(3) if x != a]
            if any(l in links for l in ((a, b), (b, a), (a, c), (c, a))):
                continue
            if rng.random() < 0.4:
                ops.append(['connect2', a, b, c, 'inout'])
                links += [(a, b), (c, a)]
            else:
                ops.append(['connect2', a, b, c])
                links += [(a, b), (a, c)]
        elif r < 0.46:
            # an outgoing connect to a present peer while another one, to an address nobody has, is failing (page timeout)
            a, b = rng.sample(range(n), 2)
            if (a, b) in links or (b, a) in links:
                continue
            ops.append(['connect_with_absent', a, b, rng.choice([0, 1])])
            links.append((a, b))
        elif r < 0.485:
            # the application asks twice for the same peer at the same time: one link, reported once on each side
            a, b = rng.sample(range(n), 2)
            if (a, b) in links or (b, a) in links:
                continue
            ops.append(['connect_twice', a, b])
            links.append((a, b))
        elif r < 0.50:
            # the two devices page each other at (nearly) the same time: an incoming connection from the very peer an outgoing
            # one is pending to. One link must come of it, and a caller that is handed a connection is handed that one.
            a, b = rng.sample(range(n), 2)
            if (a, b) in links or (b, a) in links:
                continue
            ops.append(['cross_page', a, b, rng.choice([0, 0, 0.0005, 0.002, 0.02])])
            links.append((a, b))
        elif r < 0.51:
            # a set-up that fails (the paged host asks for the central role, the pager does not allow the switch), followed by
            # an ordinary connect between the same two devices in either direction
            a, b = rng.sample(range(n), 2)
            if (a, b) in links or (b, a) in links:
                continue
            ops.append(['refused', a, b])
            x, y = rng.choice([(a, b), (b, a)])
            ops.append(['connect', x, y])
            links.append((x, y))
        elif r < 0.52 and links:
            # the same two devices additionally connect over LE (central with its public address): two links between one pair
            ops.append(['dual', list(rng.choice(links)), rng.choice([1, 2]), rng.choice([0, 1, 40])])
        elif r < 0.75:
            if not links:
                continue
            k = rng.randrange(len(links))
            ops.append(['send', list(links[k]), rng.randrange(2), rng.choice([1, 2, 3]), rng.choice([0, 1, 40, 200])])
        else:
            if not links:
                continue
            k = rng.randrange(len(links))
            ops.append([rng.choice(['disc', 'disc', 'disc_both']), list(links[k]), rng.randrange(2), rng.choice([0, 0, 1, 2])])  # last: payloads sent right before
            links.pop(k)
    vanish = rng.randrange(n) if n >= 3 and rng.random() < 0.3 else None
    return {'n': n, 'profile': rng.choice(PROFILE_NAMES), 'slow': rng.randrange(n), 'ops': ops, 'vanish': vanish}


def run_classic(case):
    sim = Sim(case['seed'], case.get('profile', 'zero'), slow_node=f'N{case.get("slow", 0)}')
    try:
        n = case['n']
        world = World(sim, n, classic=True)
        world.power_on()
        cx = Ctx(sim, world, case)
        established = carried = 0
        duals = {}
        for op in case['ops']:
            kind = op[0]
            if kind == 'connect':
                _, a, b = op
                for ev in cx.conn_events:
                    ev.clear()
                st, t = sim.run(world[a].device.connect(world[b].device.public_address, transport=0), 30.0)
                if st != 'done':
                    sim.violation_once('connect', 'connect-hang:classic', describe_task(t))
                    t.cancel()
                    break
                if t.exception() is not None:
                    sim.violation_once('connect', f'connect-failed:classic:{type(t.exception()).__name__}', repr(t.exception()))
                    break
                sim.loop.settle(vt_budget=1.0)
                sim.loop.advance(0.01)
                conn = t.result()
                if not bytes(conn.peer_address) == bytes(world[b].device.public_address):
                    sim.violation_once('wrongconn', 'connect-returned-wrong-connection:classic', f'peer {conn.peer_address}')
                    break
                pev = [c for c in cx.conn_events[b] if bytes(c.peer_address) == bytes(world[a].device.public_address)]
                if len(pev) != 1:
                    sim.violation_once('pevent', f'peripheral-connection-event:classic:count={len(pev)}', f'N{b} saw {[(str(c.peer_address)) for c in cx.conn_events[b]]}')
                    break
                third = [i for i in range(n) if i not in (a, b) and cx.conn_events[i]]
                if third:
                    sim.violation_once('third', 'third-party-connection-event:classic', f'N{third[0]} reported a connection')
                    break
                cx.links[(a, b)] = [conn, pev[0]]
                established += 1
            elif kind == 'dual':
                _, (a, b), count, size = op
                if (a, b) not in cx.links or (a, b) in duals:
                    continue
                try:
                    le = list(world.connect_le(a, b, own_address_type=cx.hci.OwnAddressType.PUBLIC))
                except HarnessError as e:
                    sim.violation_once('dual', 'le-connect-failed:while-classic-link-up', str(e))
                    break
                duals[(a, b)] = le
                sim.probe('le_and_classic_link_between_the_same_devices')
                ok = True
                for side in (0, 1):
                    ok = ok and _send(cx, a, b, side, count, size, conns=le) and _send(cx, a, b, side, count, size)
                if not ok:
                    break
                # drop the LE link again (the classic one stays)
                sim.run(le[0].disconnect(), 30.0)
                sim.loop.settle(vt_budget=1.0)
                del duals[(a, b)]
                carried += 1
            elif kind == 'connect2':
                _, a, b, c = op[:4]
                # (a -> b, a -> c), or with 'inout': a -> b while c -> a (an incoming connection while an outgoing one is pending)
                pairs = [(a, b), (c, a)] if len(op) > 4 and op[4] == 'inout' else [(a, b), (a, c)]
                for ev in cx.conn_events:
                    ev.clear()
                tb, tc = [sim.loop.create_task(world[x].device.connect(world[y].device.public_address, transport=0)) for x, y in pairs]
                st = sim.loop.drive(lambda: tb.done() and tc.done(), vt_budget=30.0)
                sim.probe('two_outgoing_classic_connects_in_flight' if pairs[1][0] == a else 'incoming_classic_connection_while_outgoing_pending')
                bad = False
                for t, (src, peer) in ((tb, pairs[0]), (tc, pairs[1])):
                    if not t.done():
                        sim.violation_once('connect', 'connect-hang:classic:two-in-flight', describe_task(t))
                        t.cancel()
                        bad = True
                    elif t.exception() is not None:
                        sim.violation_once('connect', f'connect-failed:classic:two-in-flight:{type(t.exception()).__name__}', repr(t.exception()))
                        bad = True
                if bad:
                    break
                sim.loop.settle(vt_budget=1.0)
                sim.loop.advance(0.01)
                for t, (src, peer) in ((tb, pairs[0]), (tc, pairs[1])):
                    conn = t.result()
                    if not bytes(conn.peer_address) == bytes(world[peer].device.public_address):
                        sim.violation_once('wrongconn', 'connect-returned-wrong-connection:classic:two-in-flight', f'connect(N{peer}) returned a connection to {conn.peer_address}')
                        bad = True
                        break
                    pev = [x for x in cx.conn_events[peer] if bytes(x.peer_address) == bytes(world[src].device.public_address)]
                    if len(pev) != 1:
                        sim.violation_once('pevent', f'peripheral-connection-event:classic:two-in-flight:count={len(pev)}', f'N{peer} saw {[(str(x.peer_address)) for x in cx.conn_events[peer]]}')
                        bad = True
                        break
                    cx.links[(src, peer)] = [conn, pev[0]]
                    established += 1
                if bad:
                    break
            elif kind in ('connect_with_absent', 'connect_twice'):
                a, b = op[1], op[2]
                for ev in cx.conn_events:
                    ev.clear()
                nobody = cx.hci.Address('DE:AD:BE:EF:00:02', cx.hci.Address.PUBLIC_DEVICE_ADDRESS)
                if kind == 'connect_with_absent':
                    first_absent = bool(op[3])
                    targets = [nobody, world[b].device.public_address] if first_absent else [world[b].device.public_address, nobody]
                else:
                    targets = [world[b].device.public_address, world[b].device.public_address]
                ts = [sim.loop.create_task(world[a].device.connect(t_, transport=0, timeout=20.0)) for t_ in targets]
                st = sim.loop.drive(lambda: all(t.done() for t in ts), vt_budget=60.0)
                sim.probe('connect_while_another_connect_fails' if kind == 'connect_with_absent' else 'two_connects_to_the_same_peer')
                if st != 'done':
                    sim.violation_once('connect', f'connect-hang:classic:{kind}', describe_task(next(t for t in ts if not t.done())))
                    for t in ts:
                        t.cancel()
                    break
                sim.loop.settle(vt_budget=1.0)
                sim.loop.advance(0.01)
                good = [t for t, tg in zip(ts, targets) if bytes(tg) == bytes(world[b].device.public_address) and not t.cancelled() and t.exception() is None]
                if kind == 'connect_with_absent':
                    tabs = ts[0] if first_absent else ts[1]
                    if not tabs.cancelled() and tabs.exception() is None:
                        sim.violation_once('phantom', 'connect-to-absent-address-succeeded:classic', f'{tabs.result().peer_address}')
                        break
                    if not good:
                        tb_ = ts[1] if first_absent else ts[0]
                        sim.violation_once('connect', f'connect-failed:classic:while-another-connect-fails:{type(tb_.exception()).__name__ if not tb_.cancelled() else "cancelled"}', f'connect(N{b}) raised {tb_.exception()!r} although N{b} is there and accepted')
                        break
                elif not good:
                    sim.violation_once('connect', 'connect-failed:classic:asked-twice', f'{[repr(t.exception()) for t in ts]}')
                    break
                conn = good[0].result()
                if any(g.result() is not conn for g in good):
                    sim.violation_once('handle', 'two-connection-objects-for-one-link:classic:asked-twice', 'the two connect() calls were handed different connections to the same peer')
                    break
                if bytes(conn.peer_address) != bytes(world[b].device.public_address):
                    sim.violation_once('wrongconn', f'connect-returned-wrong-connection:classic:{kind}', f'{conn.peer_address}')
                    break
                pev = [x for x in cx.conn_events[b] if bytes(x.peer_address) == bytes(world[a].device.public_address)]
                if len(pev) != 1:
                    sim.violation_once('pevent', f'peripheral-connection-event:classic:{kind}:count={len(pev)}', f'N{b} saw {[(str(x.peer_address), x.handle) for x in cx.conn_events[b]]}')
                    break
                cx.links[(a, b)] = [conn, pev[0]]
                established += 1
            elif kind == 'refused':
                _, a, b = op
                hci = cx.hci

                async def accept_as_central():
                    try:
                        await world[b].device.accept(role=hci.Role.CENTRAL, timeout=5.0)
                    except Exception:
                        pass
                ta = sim.loop.create_task(accept_as_central())
                sim.loop.settle(vt_budget=0.001)
                sim.run(world[a].host.send_command(hci.HCI_Create_Connection_Command(
                    bd_addr=world[b].device.public_address, packet_type=0xCC18, page_scan_repetition_mode=2, reserved=0, clock_offset=0, allow_role_switch=0)), 10.0)
                sim.loop.drive(lambda: ta.done(), vt_budget=10.0)
                sim.loop.settle(vt_budget=1.0)
                sim.loop.advance(0.01)
                has_a = any(bytes(c.peer_address) == bytes(world[b].device.public_address) for c in world[a].device.connections.values())
                has_b = any(bytes(c.peer_address) == bytes(world[a].device.public_address) for c in world[b].device.connections.values())
                if has_a != has_b:
                    sim.violation_once('onesided', f'one-sided-connection:classic:refused-set-up:{"pager" if has_a else "paged"}-only',
                                       f'after the refused set-up N{a if has_a else b} reports a connection, the other end reports none')
                    break
                if has_a:
                    raise HarnessError('the refused set-up produced a connection on both ends')
                sim.probe('classic_set_up_refused_then_connect')
            elif kind == 'cross_page':
                _, a, b, stagger = op
                for ev in cx.conn_events:
                    ev.clear()
                pa, pb = world[a].device.public_address, world[b].device.public_address

                async def later_connect():
                    await asyncio.sleep(stagger)
                    return await world[b].device.connect(pa, transport=0, timeout=20.0)
                ts = [sim.loop.create_task(world[a].device.connect(pb, transport=0, timeout=20.0)), sim.loop.create_task(later_connect())]
                st = sim.loop.drive(lambda: all(t.done() for t in ts), vt_budget=60.0)
                sim.probe('two_devices_page_each_other')
                if st != 'done':
                    sim.violation_once('connect', 'connect-hang:classic:cross_page', describe_task(next(t for t in ts if not t.done())))
                    for t in ts:
                        t.cancel()
                    break
                sim.loop.settle(vt_budget=1.0)
                sim.loop.advance(0.01)
                ca = [c for c in world[a].device.connections.values() if c.transport == 0 and bytes(c.peer_address) == bytes(pb)]
                cb = [c for c in world[b].device.connections.values() if c.transport == 0 and bytes(c.peer_address) == bytes(pa)]
                ea = [c for c in cx.conn_events[a] if bytes(c.peer_address) == bytes(pb)]
                eb = [c for c in cx.conn_events[b] if bytes(c.peer_address) == bytes(pa)]
                if len(ca) != 1 or len(cb) != 1 or len(ea) != 1 or len(eb) != 1:
                    sim.violation_once('crosspage', f'cross-page:links={min(len(ca), 2)}/{min(len(cb), 2)}:events={min(len(ea), 2)}/{min(len(eb), 2)}',
                                       f'N{a} holds {[hex(c.handle) for c in ca]} (events {len(ea)}), N{b} holds {[hex(c.handle) for c in cb]} (events {len(eb)}); '
                                       f'callers: {[repr(t.exception()) if t.cancelled() or t.exception() else hex(t.result().handle) for t in ts]}')
                    break
                bad = False
                for t, mine, nm in ((ts[0], ca[0], a), (ts[1], cb[0], b)):
                    if not t.cancelled() and t.exception() is None and t.result() is not mine:
                        sim.violation_once('wrongconn', 'connect-returned-wrong-connection:classic:cross_page', f'connect() on N{nm} returned handle {t.result().handle:#x}, the link is {mine.handle:#x}')
                        bad = True
                for nd, c in ((a, ca[0]), (b, cb[0])):
                    if world[nd].controller.find_connection_by_handle(c.handle) is None:
                        sim.violation_once('deadhandle', 'cross-page:handle-not-live-in-controller', f'N{nd} reports handle {c.handle:#x}, its controller has no such connection')
                        bad = True
                if bad:
                    break
                # (which role each Device reports is not compared: the property does not state it)
                cx.links[(a, b)] = [ca[0], cb[0]]
                established += 1
            elif kind == 'send':
                _, (a, b), side, count, size = op
                if not _send(cx, a, b, side, count, size):
                    break
                carried += 1
            else:
                _, (a, b), side = op[:3]
                if not _disconnect(cx, a, b, side, kind == 'disc_both', op[3] if len(op) > 3 else 0):
                    break
            sim.trace.shape(kind, str(op[1]))
        if not sim.violations:
            _vanish(cx, case.get('vanish'))
        _final_tables(cx)
        return result(sim, nontrivial=established > 0 and carried > 0)
    finally:
        sim.close()


SCENARIOS = {'le': (gen_le, run_le), 'classic': (gen_classic, run_classic)}
