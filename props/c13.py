"""C13 — pairing ends the same way on both sides, with honest authentication; bonded keys agree on reconnection.

Real: smp.Session/Manager, pairing, Device key handling, MemoryKeyStore, crypto. Stub: pairing delegates (answers
from the case, each with a seeded delay), a man-in-the-middle transformation on the air for corrupt_smp, and - because
the virtual controller grants encryption without asking anybody - an injected LE Long Term Key Request event at the
peripheral's host to observe which key it would give.
"""
from __future__ import annotations

import struct

from bsim import pairing
from bsim.sim import PROFILE_NAMES, HarnessError, Sim, World, describe_task, result

PROPERTY = 'C13'
PLAN = {
    'quick': [('table', 100), ('pair', 2200), ('two_centrals', 400), ('flip', 400)],
    'thorough': [('table', 100), ('pair', 90000), ('two_centrals', 12000), ('flip', 12000)],
}
WALL_CAP = {'quick': 150, 'thorough': 1500}
EVIDENCE = {
    'level': 'exploration',
    'rule': ('one LE link between two bumble devices; per side IO capability (5), Secure Connections, MITM, bonding and two 4-bit '
             'key-distribution masks drawn independently; pairing started by the central, requested by the peripheral, or started by the peripheral itself (SMP initiator = link peripheral); user answers '
             'accept/reject, right/wrong passkey, compare yes/no, confirm yes/no, each with a seeded delay; optionally one SMP PDU '
             '(confirm, random, public key, DHKey check) corrupted in flight; then disconnect, reconnect in the same and in swapped '
             'roles and encrypt(). the scenario "table" walks all 100 cells of 5x5 IO capabilities x {legacy,SC} x {MITM} exhaustively '
             'in every tier; scenario "two_centrals": one peripheral paired by two centrals in turn (same connection handle), each later answered with its own key. Non-trivial: a MITM-protected model was selected or a fault/negative answer was in play; distinct = distinct '
             '(io pair, sc, mitm, masks class, initiator, answers, fault, outcome).'),
    'real': ['bumble.smp', 'bumble.pairing', 'bumble.device (pair, encrypt, key provider)', 'bumble.keys.MemoryKeyStore', 'bumble.crypto'],
    'stub': ['pairing delegates', 'in-flight SMP corruption on the air channel', 'injected LE Long Term Key Request event'],
    'assumptions': ['association model table transcribed from Core Vol 3 Part H 2.3.5.1 Table 2.8 (DESIGN.md App. C)', 'OOB not in the matrix',
                    'key storage after non-bonding pairings is not judged',
                    'the re-encryption clause is only evaluated when the negotiated distribution gave the central a key'],
}

JW, NC, PK = 'just_works', 'numeric_comparison', 'passkey'
D, I = 'display', 'input'
# (model legacy, model SC, initiator passkey role, responder passkey role)
TABLE = {
    (0, 0): (JW, JW, None, None), (0, 1): (JW, JW, None, None), (0, 2): (PK, PK, D, I), (0, 3): (JW, JW, None, None), (0, 4): (PK, PK, D, I),
    (1, 0): (JW, JW, None, None), (1, 1): (JW, NC, None, None), (1, 2): (PK, PK, D, I), (1, 3): (JW, JW, None, None), (1, 4): (PK, NC, D, I),
    (2, 0): (PK, PK, I, D), (2, 1): (PK, PK, I, D), (2, 2): (PK, PK, I, I), (2, 3): (JW, JW, None, None), (2, 4): (PK, PK, I, D),
    (3, 0): (JW, JW, None, None), (3, 1): (JW, JW, None, None), (3, 2): (JW, JW, None, None), (3, 3): (JW, JW, None, None), (3, 4): (JW, JW, None, None),
    (4, 0): (PK, PK, I, D), (4, 1): (PK, NC, I, D), (4, 2): (PK, PK, D, I), (4, 3): (JW, JW, None, None), (4, 4): (PK, NC, D, I),
}


def expected_model(io_i, io_r, sc, mitm):
    if not mitm:
        return JW, None, None
    leg, scm, ri, rr = TABLE[(io_i, io_r)]
    m = scm if sc else leg
    if m != PK:
        return m, None, None
    return m, ri, rr


def gen_pair(rng, tier, seed, index=None):
    def side():
        return {'io': rng.randrange(5), 'sc': rng.random() < 0.6, 'mitm': rng.random() < 0.6, 'bonding': rng.random() < 0.8,
                'init_dist': rng.choice([0x0F, 0x03, 0x01, 0x00, rng.randrange(16)]), 'resp_dist': rng.choice([0x0F, 0x03, 0x01, 0x00, rng.randrange(16)]),
                'answers': {'delay': rng.choice([0.0, 0.0, 0.01, 0.5])}}
    a, b = side(), side()
    r = rng.random()
    neg = None
    if r < 0.1:
        b['answers']['accept'] = False
        neg = 'reject'
    elif r < 0.2:
        who = rng.choice([a, b])
        who['answers']['passkey'] = 'wrong'
        neg = 'wrong_passkey'
    elif r < 0.3:
        who = rng.choice([a, b])
        who['answers']['compare'] = False
        neg = 'compare_no'
    elif r < 0.36:
        who = rng.choice([a, b])
        who['answers']['confirm'] = False
        neg = 'confirm_no'
    fault = None
    if neg is None and rng.random() < 0.2:
        fault = [rng.choice(['confirm', 'random', 'public_key', 'dhkey_check']), rng.choice(['to_responder', 'to_initiator'])]
    if rng.random() < 0.05:
        a['answers']['agreed_passkey'] = b['answers']['agreed_passkey'] = 0
    # who starts: the central; the peripheral through a Security Request; or the peripheral itself sending the Pairing Request
    # (the SMP initiator is then the link-layer peripheral - bumble supports it, with a warning)
    return {'i': a, 'r': b, 'starter': rng.choice(['central', 'central', 'central', 'peripheral_request', 'peripheral_request', 'peripheral_direct']), 'negative': neg, 'fault': fault,
            'profile': rng.choice(PROFILE_NAMES), 'reconnect': rng.random() < 0.7, 'repair': rng.random() < 0.2,
            # the bond is kept in the persistent JSON store (on the simulated file system) instead of the in-memory one
            'store': rng.choice(['memory', 'memory', 'json'])}


SMP_CODE = {'confirm': 0x03, 'random': 0x04, 'public_key': 0x0C, 'dhkey_check': 0x0D}


def run_pair(case):
    from bumble import hci
    from bumble.keys import MemoryKeyStore

    undo_fs = []
    sim = Sim(case['seed'], case.get('profile', 'zero'), slow_node='N1')
    try:
        world = World(sim, 2)
        world.power_on()
        d0, d1 = world[0].device, world[1].device
        if case.get('store') == 'json':
            from bsim import simfs
            from bumble.keys import JsonKeyStore
            fs = simfs.SimFS(8192)
            fs.mkdir('/data', True, True)
            undo_fs.append(simfs.install(fs))
            d0.keystore = JsonKeyStore('N0', '/data/n0.json')
            d1.keystore = JsonKeyStore('N1', '/data/n1.json')
            sim.probe('json_key_stores')
        else:
            d0.keystore = MemoryKeyStore()
            d1.keystore = MemoryKeyStore()
        A, B = case['i'], case['r']
        log, shared = [], {}
        pairing.install(sim, d0, 'I', A['io'], A['sc'], A['mitm'], A['bonding'], A['answers'], log, shared, A['init_dist'], A['resp_dist'])
        pairing.install(sim, d1, 'R', B['io'], B['sc'], B['mitm'], B['bonding'], B['answers'], log, shared, B['init_dist'], B['resp_dist'])
        direct = case['starter'] == 'peripheral_direct'
        if direct:
            c1, c0 = world.connect_le(1, 0)  # the device that will send the Pairing Request (N0) is the peripheral of this link
            sim.probe('smp_initiator_is_link_peripheral')
        else:
            c0, c1 = world.connect_le(0, 1)
        events = {'I': [], 'R': []}
        c0.on('pairing', lambda keys: events['I'].append(('pairing', keys)))
        c0.on('pairing_failure', lambda reason: events['I'].append(('failure', reason)))
        c1.on('pairing', lambda keys: events['R'].append(('pairing', keys)))
        c1.on('pairing_failure', lambda reason: events['R'].append(('failure', reason)))
        sc = A['sc'] and B['sc']
        mitm = A['mitm'] or B['mitm']
        model, role_i, role_r = expected_model(A['io'], B['io'], sc, mitm)
        facts = f'{"sc" if sc else "legacy"}:{model}'
        # ---- fault: corrupt one SMP PDU in flight
        if case['fault']:
            field, direction = case['fault']
            target = world[1].link_in if direction == 'to_responder' else world[0].link_in
            done = {'n': 0}

            def transform(item, field=field, done=done):
                desc, real, args = item
                if done['n'] == 0 and desc.startswith('on_link_acl_data') and len(args) >= 3:
                    data = bytes(args[2])
                    if len(data) > 5 and struct.unpack_from('<H', data, 2)[0] == 6 and data[4] == SMP_CODE[field]:
                        done['n'] = 1
                        sim.fault(f'corrupt_smp:{field}')
                        k = 5 + (len(data) - 5) // 2
                        data = data[:k] + bytes([data[k] ^ 0x5A]) + data[k + 1:]
                        return [(desc, real, (args[0], args[1], data))]
                return [item]

            target.transform = transform

        # ---- pairing
        if case['starter'] in ('central', 'peripheral_direct'):
            ptask = sim.loop.create_task(c0.pair())
        else:
            started = []
            c0.on('security_request', lambda auth_req: started.append(sim.loop.create_task(c0.pair())))
            sim.call(c1.request_pairing)
            sim.loop.drive(lambda: bool(started), 10.0)
            if not started:
                sim.violation_once('secreq', 'security-request-not-delivered', 'the central never saw the security request')
                return result(sim, nontrivial=False)
            ptask = started[0]

        def settled():
            return ptask.done() and events['R']

        st = 'timeout'
        for _ in range(20):
            before = sim.trace.n
            st = sim.loop.drive(settled, vt_budget=35.0, step_budget=400_000)
            if st != 'timeout' or sim.trace.n == before:
                break
        sim.loop.settle(vt_budget=5.0)
        situation = case['negative'] or (f'corrupt-{case["fault"][0]}' if case['fault'] else 'clean')
        if not ptask.done():
            sim.violation_once('hang', f'pairing-hangs:initiator:{facts}:{situation}', f'pair() never returned: {describe_task(ptask)}; responder events {[e[0] for e in events["R"]]}')
            ptask.cancel()
            return result(sim, nontrivial=True)
        i_ok = not ptask.cancelled() and ptask.exception() is None
        if not events['R']:
            sim.violation_once('hang', f'pairing-never-concludes:responder:{facts}:{situation}:initiator={"ok" if i_ok else "failed"}',
                               f'initiator finished ({"success" if i_ok else repr(ptask.exception())}) but the responder reported neither pairing nor pairing_failure')
            return result(sim, nontrivial=True)
        r_ok = events['R'][-1][0] == 'pairing'
        used = {(w, what) for (w, what, *rest) in log}
        if i_ok != r_ok:
            sim.violation_once('disagree', f'pairing-outcome-differs:{facts}:{situation}:initiator={"ok" if i_ok else "failed"}',
                               f'initiator {"succeeded" if i_ok else "failed: " + repr(ptask.exception())}, responder {"succeeded" if r_ok else "failed: " + str(events["R"][-1][1])}')
            return result(sim, nontrivial=True)
        sim.probe('pairing_succeeded' if i_ok else 'pairing_failed')
        fault_fired = case['fault'] is not None and sim.faults_fired.get(f'corrupt_smp:{case["fault"][0]}', 0) > 0
        if case['fault'] and not fault_fired:
            situation = 'clean'
        must_fail = fault_fired
        if case['negative'] == 'reject':
            must_fail = True
        elif case['negative'] == 'wrong_passkey' and model == PK:
            # only a side that types the passkey can get it wrong
            if (A['answers'].get('passkey') == 'wrong' and role_i == I) or (B['answers'].get('passkey') == 'wrong' and role_r == I):
                must_fail = True
            else:
                situation = 'clean'
        elif case['negative'] == 'compare_no' and model == NC:
            must_fail = True
        elif case['negative'] in ('wrong_passkey', 'compare_no'):
            situation = 'clean'
        ks0 = dict(sim.must(d0.keystore.get_all(), 'ks0'))
        ks1 = dict(sim.must(d1.keystore.get_all(), 'ks1'))
        if must_fail:
            if i_ok:
                sim.violation_once('accepted', f'pairing-succeeded-despite:{situation}:{facts}', 'both sides report success')
            if ks0 or ks1:
                sim.violation_once('keys-after-failure', f'keys-stored-after-failed-pairing:{situation}:{facts}', f'initiator store {list(ks0)}, responder store {list(ks1)}')
        if not i_ok:
            if ks0 or ks1:
                sim.violation_once('keys-after-failure', f'keys-stored-after-failed-pairing:{situation}:{facts}', f'initiator store {list(ks0)}, responder store {list(ks1)}')
            sim.trace.shape(A['io'], B['io'], sc, mitm, situation, 'failed')
            return result(sim, nontrivial=True)

        # ---------------------------------------------------------------- success: consistency
        if bool(ks0) != bool(ks1):
            # whether a non-bonding pairing is stored is not judged; that the two ends decide alike is (a key held by one side only
            # cannot be "the same key" on a later connection)
            sim.violation_once('store-asym', f'keys-stored-on-one-side-only:bonding={int(A["bonding"])}/{int(B["bonding"])}', f'initiator store {list(ks0)}, responder store {list(ks1)}')
        if not (c0.is_encrypted and c1.is_encrypted):
            sim.violation_once('enc', f'paired-but-link-not-encrypted:{facts}', f'initiator {c0.is_encrypted}, responder {c1.is_encrypted}')
        # association model as seen through the delegates
        obs = {'I': {w for (who, w) in used if who == 'I'}, 'R': {w for (who, w) in used if who == 'R'}}
        def seen_model(o):
            if 'compare' in o:
                return NC
            if 'display' in o or 'get_number' in o:
                return PK
            return JW
        mi, mr = seen_model(obs['I']), seen_model(obs['R'])
        cell = f'{pairing.IO_NAMES[A["io"]]}x{pairing.IO_NAMES[B["io"]]}:{"sc" if sc else "legacy"}:mitm={int(mitm)}'
        if mi != model or mr != model:
            sim.violation_once('model', f'association-model:{cell}:expected={model}:got={mi}/{mr}', f'delegate calls: {sorted(used)}')
        elif model == PK:
            ri = D if 'display' in obs['I'] else (I if 'get_number' in obs['I'] else None)
            rr = D if 'display' in obs['R'] else (I if 'get_number' in obs['R'] else None)
            if (ri, rr) != (role_i, role_r):
                sim.violation_once('model', f'passkey-roles:{cell}:expected={role_i}/{role_r}:got={ri}/{rr}', f'delegate calls: {sorted(used)}')
        if model != JW:
            sim.probe('mitm_model_used')
        ki = events['I'][-1][1] if events['I'] and events['I'][-1][0] == 'pairing' else None
        kr = events['R'][-1][1]
        auth_expected = model in (PK, NC)
        for who, keys in (('initiator', ki), ('responder', kr)):
            if keys is None:
                continue
            for name in ('ltk', 'ltk_central', 'ltk_peripheral', 'irk', 'csrk', 'link_key'):
                k = getattr(keys, name)
                if k is not None and bool(k.authenticated) != auth_expected:
                    sim.violation_once('authflag', f'authenticated-flag:{model}:{name}:{who}', f'{name}.authenticated={k.authenticated} after {model}')
        if direct:
            # roles of the distributed legacy keys and the later-connection clauses are stated for a central initiator: not judged here
            if ki is not None and sc and (ki.ltk is None or kr.ltk is None or ki.ltk.value != kr.ltk.value):
                sim.violation_once('ltk', 'sc-ltk-differs', 'the two sides hold different LTKs after Secure Connections pairing')
            sim.trace.shape(A['io'], B['io'], sc, mitm, A['init_dist'] & B['init_dist'], A['resp_dist'] & B['resp_dist'], case['starter'], situation, 'ok')
            return result(sim, nontrivial=True)
        if ki is not None:
            if sc:
                if ki.ltk is None or kr.ltk is None or ki.ltk.value != kr.ltk.value:
                    sim.violation_once('ltk', 'sc-ltk-differs', 'the two sides hold different LTKs after Secure Connections pairing')
            else:
                # legacy: each side's stored copy of a distributed key equals what the other side generated
                def same(x, y):
                    return x is not None and y is not None and (x.value, x.ediv, x.rand) == (y.value, y.ediv, y.rand)
                if A['resp_dist'] & B['resp_dist'] & 1 and not same(ki.ltk_central, kr.ltk_peripheral):
                    sim.violation_once('ltk', 'legacy-ltk-copy-differs:distributed-by-responder', f'initiator holds {ki.ltk_central}, responder generated {kr.ltk_peripheral}')
                if A['init_dist'] & B['init_dist'] & 1 and not same(kr.ltk_central, ki.ltk_peripheral):
                    sim.violation_once('ltk', 'legacy-ltk-copy-differs:distributed-by-initiator', f'responder holds {kr.ltk_central}, initiator generated {ki.ltk_peripheral}')
            if A['resp_dist'] & B['resp_dist'] & 2 and (ki.irk is None or ki.irk.value != bytes(d1.irk)):
                sim.violation_once('irk', 'irk-copy-differs:distributed-by-responder', 'initiator does not hold the responder IRK')
            if A['init_dist'] & B['init_dist'] & 2 and (kr.irk is None or kr.irk.value != bytes(d0.irk)):
                sim.violation_once('irk', 'irk-copy-differs:distributed-by-initiator', 'responder does not hold the initiator IRK')
        # ---------------------------------------------------------------- re-pair on the same connection must not hang
        if case.get('repair'):
            n_r0 = len(events['R'])
            # while the second pairing starts encryption: which key does the central use, and which key would the peripheral's host
            # hand to its controller for that EDIV / Rand (the virtual controller never asks, so the request is injected)
            from bumble import hci as _hci
            cap2 = {'cmd': None, 'reply': None}

            def mon2(chan, direction, data):
                if direction != 'tx' or not data or data[0] != 0x01:
                    return
                op = struct.unpack_from('<H', data, 1)[0]
                if chan == 'N0.h2c' and op == 0x2019 and cap2['cmd'] is None:
                    cap2['cmd'] = bytes(data[4:])
                    _h, rand, ediv, _k = struct.unpack_from('<H8sH16s', cap2['cmd'], 0)
                    world[1].c2h.inject(bytes(_hci.HCI_LE_Long_Term_Key_Request_Event(connection_handle=c1.handle, random_number=rand, encryption_diversifier=ediv)))
                elif chan == 'N1.h2c' and op in (0x201A, 0x201B) and cap2['reply'] is None:
                    cap2['reply'] = (op, bytes(data[4:]))
            sim.monitors.append(mon2)
            t2 = sim.loop.create_task(c0.pair())
            st2 = sim.loop.drive(t2.done, vt_budget=60.0, step_budget=400_000)
            if st2 != 'done':
                sim.violation_once('repair', f'second-pairing-on-same-connection-hangs:{"sc" if sc else "legacy"}', describe_task(t2))
                t2.cancel()
                sim.loop.settle()
                return result(sim, nontrivial=True)
            # ... and has the same outcome on both sides, like any pairing
            n_r = len(events['R'])
            sim.loop.drive(lambda: len(events['R']) > n_r0, vt_budget=40.0, step_budget=400_000)
            sim.loop.settle(vt_budget=2.0)
            ok_i = not t2.cancelled() and t2.exception() is None
            new_r = events['R'][n_r0:]
            if not new_r:
                sim.violation_once('repair', f'second-pairing:responder-reports-nothing:{"sc" if sc else "legacy"}:initiator={"ok" if ok_i else "failed"}', 'the responder reported neither pairing nor pairing_failure for the second pairing')
            else:
                ok_r = new_r[-1][0] == 'pairing'
                if ok_i != ok_r:
                    sim.violation_once('repair', f'second-pairing-outcome-differs:{"sc" if sc else "legacy"}:initiator={"ok" if ok_i else "failed"}',
                                       f'initiator {"succeeded" if ok_i else "failed: " + repr(t2.exception())}, responder {"succeeded" if ok_r else "failed"}')
                elif ok_i:
                    sim.probe('second_pairing_on_same_connection_succeeded')
                    # Secure Connections only: a legacy pairing encrypts with the STK first, and the injected request cannot be made to
                    # arrive before the virtual controller reports the link encrypted (after which the session answers with its LTK)
                    if sc and cap2['cmd'] is not None and cap2['reply'] is not None:
                        ltk = struct.unpack_from('<H8sH16s', cap2['cmd'], 0)[3]
                        op, params = cap2['reply']
                        sim.probe('second_pairing_key_agreement_checked')
                        if op == 0x201B or params[2:18] != ltk:
                            sim.violation_once('repair-key', f'second-pairing-keys-differ:{"sc" if sc else "legacy"}',
                                               f'the central starts encryption with {ltk.hex()[:12]}.., the peripheral host answers {"no key" if op == 0x201B else params[2:18].hex()[:12] + ".."}')
            if mon2 in sim.monitors:
                sim.monitors.remove(mon2)
        # ---------------------------------------------------------------- reconnection: same key on both sides
        if case['reconnect'] and A['bonding'] and B['bonding'] and not case.get('repair'):
            central_has_key = sc or bool(A['resp_dist'] & B['resp_dist'] & 1)
            swapped_has_key = sc or bool(A['init_dist'] & B['init_dist'] & 1)
            for roles in ('same', 'swapped'):
                if (roles == 'same' and not central_has_key) or (roles == 'swapped' and not swapped_has_key):
                    continue
                _reconnect_check(sim, world, roles, facts)
                if sim.violations:
                    break
        sim.trace.shape(A['io'], B['io'], sc, mitm, A['init_dist'] & B['init_dist'], A['resp_dist'] & B['resp_dist'], case['starter'], situation, 'ok')
        return result(sim, nontrivial=model != JW or situation != 'clean')
    finally:
        for u in undo_fs:
            u()
        sim.close()


def _reconnect_check(sim, world, roles, facts, pair=None):
    from bumble import hci

    # drop whatever link exists
    for nd in world.nodes:
        for c in list(nd.device.connections.values()):
            st, t = sim.run(c.disconnect(), 30.0)
            sim.loop.settle()
            break
    sim.loop.advance(0.05)
    ci, pi = pair if pair is not None else ((0, 1) if roles == 'same' else (1, 0))
    try:
        cc, cp = world.connect_le(ci, pi)
    except HarnessError as e:
        sim.violation_once('reconnect', f'reconnect-failed:{roles}', str(e))
        return
    cap = {'cmd': None, 'reply': None}

    def mon(chan, direction, data):
        if direction != 'tx' or not data or data[0] != 0x01:
            return
        op = struct.unpack_from('<H', data, 1)[0]
        if chan == f'N{ci}.h2c' and op == 0x2019:
            cap['cmd'] = bytes(data[4:])
        elif chan == f'N{pi}.h2c' and op in (0x201A, 0x201B):
            cap['reply'] = (op, bytes(data[4:]))

    sim.monitors.append(mon)
    try:
        st, t = sim.run(cc.encrypt(), 60.0)
        if st != 'done':
            sim.violation_once('encrypt', f'encrypt-hangs:{roles}:{facts}', describe_task(t))
            t.cancel()
            return
        if t.exception() is not None:
            sim.violation_once('encrypt', f'encrypt-failed:{roles}:{facts}:{type(t.exception()).__name__}', repr(t.exception()))
            return
        if cap['cmd'] is None:
            sim.violation_once('encrypt', f'encrypt-sent-no-command:{roles}', '')
            return
        handle, rand, ediv, ltk = struct.unpack_from('<H8sH16s', cap['cmd'], 0)
        # ask the peripheral's host which key it would give for that EDIV/Rand
        ev = hci.HCI_LE_Long_Term_Key_Request_Event(connection_handle=cp.handle, random_number=rand, encryption_diversifier=ediv)
        sim.call(world[pi].c2h.inject, bytes(ev))
        sim.loop.drive(lambda: cap['reply'] is not None, 10.0)
        sim.loop.settle()
        if cap['reply'] is None:
            sim.violation_once('ltkreq', f'ltk-request-unanswered:{roles}:{facts}', 'the peripheral host did not answer LE Long Term Key Request')
            return
        op, params = cap['reply']
        if op == 0x201B:
            sim.violation_once('ltkreq', f'peripheral-has-no-key:{roles}:{facts}', 'negative reply although the central encrypts with a stored key')
            return
        pkey = params[2:18]
        sim.probe(f'reconnect_checked_{roles}')
        if pkey != ltk:
            sim.violation_once('ltkdiff', f'reconnect-keys-differ:{roles}:{facts.split(":")[0]}', f'central encrypts with {ltk.hex()[:12]}.., peripheral answers {pkey.hex()[:12]}.. (ediv {ediv}, rand {rand.hex()})')
    finally:
        sim.monitors.remove(mon)


# ====================================================================================== one peripheral bonded with two centrals
def gen_two(rng, tier, seed):
    return {'sc': rng.random() < 0.6, 'io': [rng.randrange(5) for _ in range(3)], 'mitm': rng.random() < 0.5, 'order': rng.choice([[0, 2], [2, 0]]),
            'idle_between': rng.choice([0.0, 0.05, 1.0]), 'profile': rng.choice(PROFILE_NAMES), 'back': rng.choice([[0], [2], [0, 2], [2, 0]]),
            'answers_delay': rng.choice([0.0, 0.0, 0.01])}


def run_two(case):
    """N1 is the peripheral; N0 and N2 pair with it one after the other (each on a connection of its own, which gets the same handle),
    disconnect, and come back: for each of them the peripheral's host must hand out the key it shares with THAT central."""
    from bumble.keys import MemoryKeyStore

    sim = Sim(case['seed'], case.get('profile', 'zero'), slow_node='N1')
    try:
        world = World(sim, 3)
        world.power_on()
        log, shared = [], {}
        for i, nd in enumerate(world.nodes):
            nd.device.keystore = MemoryKeyStore()
            pairing.install(sim, nd.device, 'R' if i == 1 else 'I', case['io'][i], case['sc'], case['mitm'], True, {'delay': case['answers_delay']}, log, shared, 0x0F, 0x0F)
        facts = 'sc' if case['sc'] else 'legacy'
        handles = []
        for k in case['order']:
            cc, cp = world.connect_le(k, 1)
            handles.append(cp.handle)
            st, t = sim.run(cc.pair(), 120.0)
            if st != 'done' or t.exception() is not None:
                # whether a pairing concludes is the other scenarios' business: here it is only the set-up
                sim.probe('two_centrals_setup_pairing_failed')
                return result(sim, nontrivial=False)
            sim.loop.settle(vt_budget=2.0)
            st, t = sim.run(cc.disconnect(), 30.0)
            sim.loop.settle(vt_budget=2.0)
            if case['idle_between']:
                sim.loop.advance(case['idle_between'])
        if len(set(handles)) == 1:
            sim.probe('both_centrals_were_given_the_same_connection_handle')
        for k in case['back']:
            _reconnect_check(sim, world, f'central=N{k}:paired={"first" if case["order"][0] == k else "last"}', facts, pair=(k, 1))
            if sim.violations:
                break
        sim.trace.shape(case['sc'], tuple(case['order']), tuple(case['back']))
        return result(sim, nontrivial=True)
    finally:
        sim.close()


# ====================================================================================== bonded twice, with different methods
def gen_flip(rng, tier, seed):
    return {'first_sc': rng.random() < 0.5, 'store': rng.choice(['json', 'json', 'memory']), 'same_connection': rng.random() < 0.5,
            'io': [rng.randrange(5), rng.randrange(5)], 'mitm': rng.random() < 0.4, 'profile': rng.choice(PROFILE_NAMES), 'roles': rng.choice([['same'], ['swapped'], ['same', 'swapped']])}


def run_flip(case):
    """Two devices bond with LE legacy pairing and later again with Secure Connections (or the other way round), keeping their
    key stores - a JSON store merges the new keys into the old entry. On the next connection both must use the LATEST bond."""
    from bsim import simfs
    from bumble.keys import JsonKeyStore, MemoryKeyStore

    sim = Sim(case['seed'], case.get('profile', 'zero'), slow_node='N1')
    undo = None
    try:
        world = World(sim, 2)
        world.power_on()
        d0, d1 = world[0].device, world[1].device
        if case['store'] == 'json':
            fs = simfs.SimFS(8192)
            fs.mkdir('/data', True, True)
            undo = simfs.install(fs)
            d0.keystore = JsonKeyStore('N0', '/data/n0.json')
            d1.keystore = JsonKeyStore('N1', '/data/n1.json')
            sim.probe('json_key_stores')
        else:
            d0.keystore, d1.keystore = MemoryKeyStore(), MemoryKeyStore()
        c0, c1 = world.connect_le(0, 1)
        for n, sc in enumerate([case['first_sc'], not case['first_sc']]):
            log, shared = [], {}
            pairing.install(sim, d0, 'I', case['io'][0], sc, case['mitm'], True, {'delay': 0.0}, log, shared, 0x0F, 0x0F)
            pairing.install(sim, d1, 'R', case['io'][1], sc, case['mitm'], True, {'delay': 0.0}, log, shared, 0x0F, 0x0F)
            if n == 1 and not case['same_connection']:
                sim.run(c0.disconnect(), 30.0)
                sim.loop.settle(vt_budget=2.0)
                c0, c1 = world.connect_le(0, 1)
            st, t = sim.run(c0.pair(), 120.0)
            sim.loop.settle(vt_budget=3.0)
            if st != 'done' or t.exception() is not None:
                sim.probe('flip_setup_pairing_failed')  # whether a pairing concludes is judged by the other scenarios
                return result(sim, nontrivial=False)
        sim.probe('bonded_twice_with_different_methods')
        facts = f'{"legacy-then-sc" if not case["first_sc"] else "sc-then-legacy"}:{case["store"]}'
        for roles in case['roles']:
            _reconnect_check(sim, world, roles, facts)
            if sim.violations:
                break
        sim.trace.shape(case['first_sc'], case['store'], case['same_connection'], tuple(case['roles']))
        return result(sim, nontrivial=True)
    finally:
        if undo:
            undo()
        sim.close()


def gen_table(rng, tier, seed, index):
    """The association-model table, exhaustively: 5x5 IO capabilities x {legacy, SC} x {no MITM, MITM} = 100 cells."""
    io_i, io_r, sc, mitm = index % 5, (index // 5) % 5, bool((index // 25) % 2), bool((index // 50) % 2)
    def side(io):
        return {'io': io, 'sc': sc, 'mitm': mitm, 'bonding': True, 'init_dist': 0x0F, 'resp_dist': 0x0F, 'answers': {'delay': 0.0}}
    return {'i': side(io_i), 'r': side(io_r), 'starter': 'central', 'negative': None, 'fault': None, 'profile': rng.choice(['zero', 'lan', 'burst']),
            'reconnect': True, 'repair': False}


gen_table.wants_index = True

SCENARIOS = {'pair': (gen_pair, run_pair), 'table': (gen_table, run_pair), 'two_centrals': (gen_two, run_two), 'flip': (gen_flip, run_flip)}
