"""C07 — LE and enhanced credit-based channels: exact byte stream, credit discipline, progress.

Real: LeCreditBasedChannel, ChannelManager (LE CoC and enhanced request/response/credit paths), everything below.
Stub: in about half of the runs the peer is a RawPeer speaking LE CoC from a reference implementation that
allocates CIDs from the top of the range and returns credits in its own granularity.
"""
from __future__ import annotations

import struct

from bsim.l2tap import L2capTap
from bsim.rawpeer import LeCocPeer, RawPeer
from bsim.sim import PROFILE_NAMES, HarnessError, Sim, World, describe_task, result

PROPERTY = 'C07'
PLAN = {
    'quick': [('coc', 2600)],
    'thorough': [('coc', 90000)],
}
WALL_CAP = {'quick': 150, 'thorough': 1500}
EVIDENCE = {
    'level': 'exploration',
    'rule': ('one LE link, 1-3 LE credit-based or enhanced credit-based channels opened by bumble or by the peer; MTU from '
             '{23,24,64,512,2048,65535}, MPS from {23,24,64,251,2048,65533}, initial credits from {1,2,3,255,256,65535} or '
             'random, independently per side; 1-24 writes of 1 byte to 3 MTUs in both directions at once; the peer is bumble or '
             'a scripted reference endpoint with top-down CID allocation and one-by-one / bulk / at-zero credit return. '
             'Non-trivial: a sender ran out of credits at least once or an SDU was segmented; distinct = distinct (peer kind, '
             'channel kind, initiator, parameter classes, per-channel frame counts).'),
    'real': ['bumble.l2cap.LeCreditBasedChannel', 'bumble.l2cap.ChannelManager', 'bumble.device/host/controller/link'],
    'stub': ['RawPeer + LeCocPeer reference LE CoC endpoint (bsim/rawpeer.py), in the runs with peer=raw'],
    'assumptions': ['credit ledgers are evaluated at the sender own HCI boundary (or at the receiving reference endpoint, where a deficit is always a real one)',
                    'byte-stream equality, not SDU boundary equality', 'zero-length writes are not generated'],
}

PSM = 0x0083
MTUS = [23, 24, 64, 512, 2048, 65535]
MPSS = [23, 24, 64, 251, 2048, 65533]
CREDS = [1, 2, 3, 255, 256, 65535]


def gen_coc(rng, tier, seed):
    def side():
        return {'mtu': rng.choice(MTUS + [rng.randint(23, 300)]), 'mps': rng.choice(MPSS + [rng.randint(23, 300)]),
                'credits': rng.choice(CREDS + [rng.randint(1, 12)])}
    kind = rng.choice(['le_coc', 'le_coc', 'ecbfc'])
    nchan = rng.choice([1, 1, 2, 3])
    a, b = side(), side()
    writes = []
    budget = 60000 if tier == 'quick' else 200000
    total = 0
    for _ in range(rng.randint(1, 24)):
        ch = rng.randrange(nchan)
        d = rng.randrange(2)
        peer_mtu = (b if d == 0 else a)['mtu']
        size = rng.choice([1, 2, 22, 23, 24, peer_mtu - 1, peer_mtu, peer_mtu + 1, 2 * peer_mtu, 3 * peer_mtu, rng.randint(1, 600)])
        size = max(1, min(size, 20000))
        if total + size > budget:
            continue
        total += size
        writes.append([ch, d, size])
    return {
        'peer': rng.choice(['bumble', 'raw']), 'kind': kind, 'initiator': rng.choice(['node0', 'peer']), 'nchan': nchan,
        'a': a, 'b': b, 'policy': rng.choice(['one', 'bulk', 'zero']), 'cid_top': rng.random() < 0.8,
        'profile': rng.choice(PROFILE_NAMES), 'writes': writes, '_lists': ['writes'],
        # a final SDU (its size; it usually spans more frames than the credits at hand), written, drained and followed by a close
        'last_words': rng.choice([0, 0, 40, 150, 900, 5000]),
    }


class CocWire:
    """Credit / MPS / MTU discipline of one bumble node's CoC senders, from its own HCI boundary."""

    def __init__(self, sim, node, label):
        self.sim = sim
        self.label = label
        self.chans = {}  # dcid (peer cid, where this node sends data) -> state dict
        self.pending_credit = {}
        L2capTap(sim, node, self.on_pdu)

    def add(self, scid, dcid, peer_mtu, peer_mps, initial_credits):
        self.chans[dcid] = {'scid': scid, 'mtu': peer_mtu, 'mps': peer_mps, 'credits': initial_credits, 'frames': 0,
                            'sdu_left': 0, 'segmented': False}

    def on_pdu(self, direction, handle, cid, payload):
        if direction == 'out' and cid in self.chans:
            c = self.chans[cid]
            c['frames'] += 1
            c['credits'] -= 1
            if c['credits'] == 0:
                self.sim.probe('credits_hit_zero')
            if c['credits'] < 0:
                self.sim.violation_once('credit', f'coc:frame-sent-without-credit:{self.label}', f'frame #{c["frames"]} on cid {cid:#x} sent with no credit left')
            if len(payload) > c['mps']:
                self.sim.violation_once('mps', f'coc:frame-exceeds-peer-mps:{self.label}', f'{len(payload)} > {c["mps"]}')
            if c['sdu_left'] == 0:
                if len(payload) >= 2:
                    n = struct.unpack_from('<H', payload, 0)[0]
                    if n > c['mtu']:
                        self.sim.violation_once('mtu', f'coc:sdu-exceeds-peer-mtu:{self.label}', f'SDU length {n} > peer MTU {c["mtu"]}')
                    c['sdu_left'] = n - (len(payload) - 2)
                    if c['sdu_left'] > 0:
                        self.sim.probe('sdu_segmented')
                else:
                    self.sim.violation_once('sdu', f'coc:first-frame-shorter-than-length-field:{self.label}', f'{len(payload)} bytes')
            else:
                c['sdu_left'] -= len(payload)
                if c['sdu_left'] < 0:
                    self.sim.violation_once('sdu', f'coc:sdu-frames-exceed-announced-length:{self.label}', '')
                    c['sdu_left'] = 0
        elif direction == 'in' and cid == 0x0005 and len(payload) >= 8 and payload[0] == 0x16:
            pcid, n = struct.unpack_from('<HH', payload, 4)
            c = self.chans.get(pcid)
            if c is not None:
                c['credits'] += n
                if c['credits'] > 65535:
                    self.sim.violation_once('creditmax', f'coc:credits-exceed-65535:{self.label}', f'{c["credits"]}')


def run_coc(case):
    from bumble import l2cap

    sim = Sim(case['seed'], case.get('profile', 'zero'), slow_node='N1')
    try:
        world = World(sim, 2)
        world.power_on()
        c0, c1 = world.connect_le(0, 1)
        a, b = case['a'], case['b']
        spec_a = l2cap.LeCreditBasedChannelSpec(psm=PSM, mtu=a['mtu'], mps=a['mps'], max_credits=a['credits'])
        spec_b = l2cap.LeCreditBasedChannelSpec(psm=PSM, mtu=b['mtu'], mps=b['mps'], max_credits=b['credits'])
        raw = case['peer'] == 'raw'
        kind, nchan = case['kind'], case['nchan']
        wire0 = CocWire(sim, world[0], 'bumble')
        accepted0 = []
        world[0].device.create_l2cap_server(spec_a, handler=accepted0.append)
        mgr0 = world[0].device.l2cap_channel_manager
        ends0 = []  # bumble channel objects on node 0
        ends1 = []  # bumble channel objects or CocEnd on node 1
        facts = f'{case["peer"]}:{kind}:init={case["initiator"]}'
        if raw:
            rp = RawPeer(sim, world[1])
            coc = LeCocPeer(sim, rp, b['mtu'], b['mps'], b['credits'], case['policy'], case['cid_top'])
            coc.psms.add(PSM)
        else:
            wire1 = CocWire(sim, world[1], 'bumble')
            accepted1 = []
            world[1].device.create_l2cap_server(spec_b, handler=accepted1.append)
            mgr1 = world[1].device.l2cap_channel_manager

        # ---------------------------------------------------------------- open
        def open_from_node0():
            if kind == 'ecbfc':
                st, t = sim.run(mgr0.create_enhanced_credit_based_channels(c0, spec_a, nchan), 60.0)
                chans = None if st != 'done' or t.exception() else t.result()
            else:
                chans = []
                for _ in range(nchan):
                    st, t = sim.run(c0.create_l2cap_channel(spec=spec_a), 60.0)
                    if st != 'done' or t.exception() is not None:
                        chans = None
                        break
                    chans.append(t.result())
            if chans is None:
                why = st if st != 'done' else repr(t.exception())
                sim.violation_once('open', f'coc:open-failed:{facts}', f'open from bumble failed: {why}')
                if st != 'done':
                    t.cancel()
                return False
            sim.loop.settle()
            ends0.extend(chans)
            if raw:
                if len(coc.accepted) != len(chans):
                    raise HarnessError('raw peer accepted a different number of channels')
                ends1.extend(coc.accepted)
            else:
                if len(accepted1) != len(chans):
                    sim.violation_once('open', f'coc:acceptor-count:{facts}', f'{len(accepted1)} accepted for {len(chans)} opened')
                    return False
                ends1.extend(accepted1)
            return True

        def open_from_peer():
            if raw:
                if kind == 'ecbfc':
                    es = coc.connect_enhanced(c1.handle, PSM, nchan)
                else:
                    es = []
                    for _ in range(nchan):
                        es.append(coc.connect(c1.handle, PSM))
                        sim.loop.settle()
                sim.loop.settle()
                if not all(e.open for e in es):
                    res = [getattr(e, 'result', None) for e in es]
                    sim.violation_once('open', f'coc:open-refused-by-bumble:{facts}', f'results {res}, rejects {coc.rejects[:2]}')
                    return False
                if len(accepted0) != len(es):
                    sim.violation_once('open', f'coc:acceptor-count:{facts}', f'{len(accepted0)} accepted for {len(es)} opened')
                    return False
                ends1.extend(es)
                ends0.extend(accepted0)
                return True
            if kind == 'ecbfc':
                st, t = sim.run(mgr1.create_enhanced_credit_based_channels(c1, spec_b, nchan), 60.0)
                chans = None if st != 'done' or t.exception() else t.result()
            else:
                chans = []
                for _ in range(nchan):
                    st, t = sim.run(c1.create_l2cap_channel(spec=spec_b), 60.0)
                    if st != 'done' or t.exception() is not None:
                        chans = None
                        break
                    chans.append(t.result())
            if chans is None:
                why = st if st != 'done' else repr(t.exception())
                sim.violation_once('open', f'coc:open-failed:{facts}', f'open from peer bumble failed: {why}')
                return False
            sim.loop.settle()
            if len(accepted0) != len(chans):
                sim.violation_once('open', f'coc:acceptor-count:{facts}', f'{len(accepted0)} accepted for {len(chans)} opened')
                return False
            ends1.extend(chans)
            ends0.extend(accepted0)
            return True

        ok = open_from_node0() if case['initiator'] == 'node0' else open_from_peer()
        if not ok:
            return result(sim, nontrivial=False)

        # ---------------------------------------------------------------- bind monitors and sinks
        rx0 = [bytearray() for _ in ends0]
        rx1 = [bytearray() for _ in ends1]
        for i, ch in enumerate(ends0):
            ch.sink = lambda data, i=i: rx0[i].extend(data)
            wire0.add(ch.source_cid, ch.destination_cid, ch.peer_mtu, ch.peer_mps, ch.credits)
            # negotiated parameters as bumble sees them must be what the peer announced
            if (ch.peer_mtu, ch.peer_mps) != (b['mtu'], b['mps']):
                sim.violation_once('params', f'coc:peer-parameters-misrecorded:{facts}', f'bumble holds peer mtu/mps {ch.peer_mtu}/{ch.peer_mps}, peer announced {b["mtu"]}/{b["mps"]}')
        if not raw:
            for i, ch in enumerate(ends1):
                ch.sink = lambda data, i=i: rx1[i].extend(data)
                wire1.add(ch.source_cid, ch.destination_cid, ch.peer_mtu, ch.peer_mps, ch.credits)

        # ---------------------------------------------------------------- transfer, both directions at once
        want0 = [bytearray() for _ in ends0]  # what node 0 must receive
        want1 = [bytearray() for _ in ends1]
        tag = 0
        for ch_i, d, size in case['writes']:
            ch_i %= len(ends0)
            tag += 1
            data = bytes(((tag * 31 + k) & 0xFF) for k in range(size))
            if d == 0:
                want1[ch_i] += data
                ends0[ch_i].write(data)
            else:
                want0[ch_i] += data
                ends1[ch_i].write(data)
        # progress: everything arrives while the receivers keep consuming
        def done():
            got1 = [bytes(e.rx_stream) for e in ends1] if raw else [bytes(x) for x in rx1]
            return all(bytes(rx0[i]) == bytes(want0[i]) for i in range(len(ends0))) and all(got1[i] == bytes(want1[i]) for i in range(len(ends1)))

        def delivered():
            # wire activity, not SDU bytes: one 20000-byte SDU in 24-byte frames with one credit takes minutes
            return sim.trace.n

        # bounded liveness without a timing assumption: keep going as long as bytes keep arriving; 'stalled' means
        # 30 virtual seconds (far above any latency profile's round trip) without a single packet on any tap
        st = 'timeout'
        for _ in range(2000):
            before = delivered()
            st = sim.loop.drive(done, vt_budget=30.0, step_budget=3_000_000)
            if st != 'timeout' or delivered() == before:
                break
        sim.loop.settle(vt_budget=30.0, step_budget=1_000_000)
        got1 = [bytes(e.rx_stream) for e in ends1] if raw else [bytes(x) for x in rx1]
        for i in range(len(ends0)):
            _compare(sim, f'to-bumble:{facts}', bytes(rx0[i]), bytes(want0[i]), st)
            _compare(sim, f'to-peer:{facts}', got1[i], bytes(want1[i]), st)
        # drain() returns once everything has been sent
        for ch in ends0 + ([] if raw else ends1):
            dst, t = sim.run(ch.drain(), 30.0)
            if dst != 'done':
                sim.violation_once('drain', f'coc:drain-hang:{facts}', describe_task(t))
                t.cancel()
        # last words: write, wait for drain(), close at once - what drain() vouched for has left before the channel is closed
        if not raw and not sim.violations and case.get('last_words'):
            ch, peer_i = ends0[0], 0
            n_before = len(rx1[peer_i])
            size = max(1, min(b['mtu'], case['last_words']))
            data = bytes((0xA5 + k) & 0xFF for k in range(size))

            async def say_and_close():
                ch.write(data)
                await ch.drain()
                await ch.disconnect()
            dst, t = sim.run(say_and_close(), 60.0)
            sim.loop.settle(vt_budget=5.0)
            sim.probe('write_drain_close')
            if dst != 'done':
                sim.violation_once('lastwords', f'coc:write-drain-close-hangs:{facts}', describe_task(t))
                t.cancel()
            elif t.exception() is None and bytes(rx1[peer_i][n_before:]) != data:
                sim.violation_once('lastwords', f'coc:data-lost-after-drain-returned:{facts}', f'{len(rx1[peer_i]) - n_before} of {size} bytes written before drain() reached the peer; the channel was closed right after drain() returned')
        if raw:
            for e in ends1:
                for cls, msg in e.violations:
                    name = {'credit': 'frame-sent-without-credit', 'mps': 'frame-exceeds-peer-mps', 'mtu': 'sdu-exceeds-peer-mtu',
                            'sdu': 'sdu-framing', 'credit-overflow': 'credits-exceed-65535'}[cls]
                    sim.violation_once(cls, f'coc:{name}:bumble-seen-by-reference-peer', msg)
            if coc.rejects:
                sim.violation_once('reject', f'coc:bumble-rejected-signalling:{facts}:{coc.rejects[0][0]}', str(coc.rejects[:3]))
        frames = tuple(c['frames'] for c in wire0.chans.values())
        sim.trace.shape(case['peer'], kind, case['initiator'], frames, a['credits'] < 4, b['credits'] < 4)
        nontrivial = sim.probes['credits_hit_zero'] + sim.probes['sdu_segmented'] + sim.probes['raw_peer_waited_for_credits'] > 0
        return result(sim, nontrivial=nontrivial)
    finally:
        sim.close()


def _compare(sim, facts, got: bytes, want: bytes, st):
    if got == want:
        return
    if want.startswith(got):
        sim.violation_once('stall', f'coc:transfer-stalled:{facts}:{st}', f'{len(got)} of {len(want)} bytes delivered, then nothing more')
    else:
        k = next((i for i, (x, y) in enumerate(zip(got, want)) if x != y), min(len(got), len(want)))
        sim.violation_once('corrupt', f'coc:stream-mismatch:{facts}', f'first difference at byte {k}; got {len(got)} bytes, want {len(want)}')


SCENARIOS = {'coc': (gen_coc, run_coc)}
