"""C04 — outbound data obeys controller buffer credits, stays FIFO and never stalls; pipe order.

Real: DataPacketQueue, Host completion/disconnection handlers, FlowControlAsyncPipe.
Stub: a scripted controller with B buffers (ground truth for occupancy), pipe source/sink callbacks.
"""
from __future__ import annotations

import asyncio
import collections

from bsim.sim import Sim, result

PROPERTY = 'C04'

PLAN = {
    'quick': [('queue', 24000), ('pipe', 12000)],
    'thorough': [('queue', 600000), ('pipe', 300000)],
}
WALL_CAP = {'quick': 120, 'thorough': 1500}

EVIDENCE = {
    'level': 'exploration',
    'rule': ('seeded histories of enqueue / completion report (honest, over-report, unknown handle, zero) / flush / drain '
             'over 1-4 connections and 1-8 controller buffers, against the object alone and through a real Host; pipe: '
             'write/pause/resume/sink-progress histories. A run is non-trivial when the queue was full at least once with '
             'packets waiting (queue) or something was written while a drain was outstanding or the pipe paused (pipe); '
             'distinct = distinct sequence of (op kind, send-callback batch sizes).'),
    'real': ['bumble.host.DataPacketQueue', 'bumble.host.Host (completed-packets, disconnection, send_acl_sdu paths)',
             'bumble.utils.FlowControlAsyncPipe'],
    'stub': ['scripted controller with B buffers (ground truth for occupancy)', 'pipe source/sink callbacks'],
    'assumptions': ['an over-report frees min(reported, really outstanding for that handle) at the controller',
                    'only per-connection order is required, not global order',
                    'drain on a connection that never had a packet may raise or return'],
}

HANDLES = [0x0001, 0x0002, 0x0040, 0x0EFF]


# --------------------------------------------------------------------------------------
def gen_queue(rng, tier, seed):
    nconn = rng.choice([1, 2, 2, 3, 4])
    B = rng.choice([1, 1, 2, 2, 3, 4, 5, 8])
    via_host = rng.random() < 0.4
    if via_host and rng.random() < 0.4:
        # the Host learns the buffer geometry itself (Host.reset against a controller without dedicated LE buffers) and
        # carries LE and BR/EDR connections at once: one pool of B buffers for both
        via_host = 'reset'
    honest = rng.random() < 0.45  # fault-free configuration (no over-reports / unknown handles)
    nops = rng.randint(3, 40)
    ops = []
    for _ in range(nops):
        r = rng.random()
        c = rng.randrange(nconn)
        if r < 0.42:
            ops.append(['enq', c, rng.choice([1, 1, 1, 2, 3])])
        elif r < 0.72:
            # one event may report several handles; with faults on, an unknown (stale) handle may come first in it
            ops.append(['complete', c, rng.choice([1, 1, 1, 2, 3, B]), (not honest) and rng.random() < 0.25])
        elif r < 0.78:
            if honest:
                ops.append(['complete', c, 1])
            else:
                ops.append(['over', c, rng.choice([1, 2, 3, 7])])
        elif r < 0.82:
            if honest:
                ops.append(['enq', c, 1])
            else:
                ops.append([rng.choice(['unknown', 'zero']), c, rng.choice([1, 2, 5])])
        elif r < 0.90:
            ops.append(['flush', c])
        else:
            ops.append(['drain', c])
    # an application that says good-bye from its 'disconnection' listener: a packet sent on the connection that is going away
    return {'B': B, 'nconn': nconn, 'via_host': via_host, 'ops': ops, 'bye': bool(via_host) and rng.random() < 0.35, 'B_iso': rng.choice([1, 2, 3]),
            'split_reports': rng.random() < 0.3}


class _Stub:
    """Scripted controller: B buffers; the ground truth for occupancy."""

    def __init__(self, sim: Sim, B: int) -> None:
        self.sim = sim
        self.B = B
        self.out = collections.Counter()  # handle -> outstanding
        self.sent: dict[int, list[int]] = collections.defaultdict(list)  # handle -> packet ids in send order
        self.seen: set[int] = set()
        self.batch = 0
        self.over_report_seen = False
        self.dead: set[int] = set()
        self.dropped: set[int] = set()

    def on_data(self, handle: int, pid: int) -> None:
        if handle in self.dead:
            # data for a connection the controller has already reported as gone: dropped on the floor, no buffer held, no
            # completion report will ever name it
            self.seen.add(pid)
            self.dropped.add(pid)
            return
        self.batch += 1
        if pid in self.seen:
            self.sim.violation('order:duplicate-send', f'packet {pid} handed over twice')
        self.seen.add(pid)
        self.sent[handle].append(pid)
        self.out[handle] += 1
        if sum(self.out.values()) > self.B:
            self.sim.violation_once('overrun', f'overrun:over_report={int(self.over_report_seen)}',
                               f'{sum(self.out.values())} packets outstanding at a {self.B}-buffer controller')


def _iso_pool(sim, host, b_iso, hci):
    """The isochronous pool the host learnt by itself: never more ISO packets outstanding than the controller advertised, and
    the rest flows as completions come back."""
    ISO_HANDLE = 0x0E00
    out = []
    real = host.hci_sink

    class IsoSink:
        def on_packet(self_inner, packet: bytes) -> None:
            if packet and packet[0] == 0x05:
                out.append(bytes(packet))
            else:
                real.on_packet(packet)
    host.set_packet_sink(IsoSink())
    try:
        if getattr(host, 'iso_packet_queue', None) is None:
            sim.violation_once('iso-stall', 'stall:iso-pool:no-queue', f'the controller advertised {b_iso} ISO buffers, the host set up no ISO queue: ISO data can never be sent')
            return
        host.on_packet(bytes(hci.HCI_LE_CIS_Established_Event(
            status=0, connection_handle=ISO_HANDLE, cig_sync_delay=0, cis_sync_delay=0, transport_latency_c_to_p=0, transport_latency_p_to_c=0,
            phy_c_to_p=1, phy_p_to_c=1, nse=0, bn_c_to_p=0, bn_p_to_c=0, ft_c_to_p=0, ft_p_to_c=0, max_pdu_c_to_p=0, max_pdu_p_to_c=0, iso_interval=0)))
        total = b_iso + 3
        for k in range(total):
            host.send_iso_sdu(ISO_HANDLE, bytes([k]) * 20)
        sim.loop.settle()
        sim.probe('iso_packets_through_the_learnt_pool')
        if len(out) > b_iso:
            sim.violation_once('iso-overrun', 'overrun:iso-pool', f'{len(out)} ISO packets outstanding at a controller that advertised {b_iso} ISO buffers')
            return
        done = 0
        for _ in range(total + 2):
            if len(out) - done <= 0:
                break
            done += 1
            host.on_packet(bytes(hci.HCI_Number_Of_Completed_Packets_Event(connection_handles=[ISO_HANDLE], num_completed_packets=[1])))
            sim.loop.settle()
            if len(out) - done > b_iso:
                sim.violation_once('iso-overrun', 'overrun:iso-pool', f'{len(out) - done} ISO packets outstanding, {b_iso} buffers')
                return
        if len(out) != total:
            sim.violation_once('iso-stall', 'stall:iso-pool', f'{len(out)} of {total} ISO packets handed over although every one handed over was completed')
            return
        # ---- a broadcast group (two BIS) fills the pool and is then terminated with packets in flight and waiting: what it held is
        # given back, and the CIS, which shares the pool, is served at once
        BIS = [0x0E10, 0x0E11]
        host.on_packet(bytes(hci.HCI_LE_Create_BIG_Complete_Event(status=0, big_handle=1, big_sync_delay=0, transport_latency_big=0, phy=1, nse=1, bn=1, pto=0, irc=1,
                                                                  max_pdu=100, iso_interval=8, connection_handle=BIS)))
        if not all(h in host.bis_links for h in BIS):
            raise HarnessError('BIS links not created')
        before = len(out)
        for k in range(b_iso + 2):
            host.send_iso_sdu(BIS[k % 2], bytes([0x80 + k]) * 12)
        sim.loop.settle()
        if len(out) - before > b_iso:
            sim.violation_once('iso-overrun', 'overrun:iso-pool:bis', f'{len(out) - before} ISO packets outstanding, {b_iso} buffers')
            return
        host.remove_big(1)
        sim.probe('big_terminated_with_iso_packets_in_flight')
        before = len(out)
        for k in range(b_iso):
            host.send_iso_sdu(ISO_HANDLE, bytes([0x40 + k]) * 9)
        sim.loop.settle()
        if len(out) - before != b_iso:
            sim.violation_once('iso-stall', 'stall:iso-pool:after-a-big-was-terminated', f'{len(out) - before} of {b_iso} CIS packets handed over after the group that held the whole pool was terminated')
    finally:
        host.set_packet_sink(real)


def run_queue(case):
    from bumble import hci
    from bumble.host import DataPacketQueue, Host

    sim = Sim(case['seed'])
    try:
        B = case['B']
        via_host = case['via_host']
        stub = _Stub(sim, B)
        handles = HANDLES[: case['nconn']]
        waiting = {h: collections.deque() for h in handles}  # model: ids enqueued, not yet handed over
        expected = {h: [] for h in handles}  # model: ids in submission order (per connection epoch)
        enq_total = 0
        done_total = 0  # completed or discarded (model)
        next_id = [1]
        waiters = []  # (handle, task)
        connected = {h: True for h in handles}

        def parse_pid(data: bytes) -> int:
            return int.from_bytes(data[:4], 'big')

        if via_host:
            class Sink:
                def on_packet(self_inner, packet: bytes) -> None:
                    p = hci.HCI_Packet.from_bytes(packet)
                    if isinstance(p, hci.HCI_AclDataPacket):
                        stub.on_data(p.connection_handle, parse_pid(p.data))

            async def mk():
                h = Host()
                h.set_packet_sink(Sink())
                h.ready = True
                q = DataPacketQueue(27, B, h.send_hci_packet)
                h.acl_packet_queue = q
                h.le_acl_packet_queue = q
                return h, q

            async def mk_reset():
                from bumble.controller import Controller
                from bumble.transport.common import AsyncPipeSink
                c = Controller('C', link=None)
                c.acl_data_packet_length, c.total_num_acl_data_packets = 27, B
                c.le_acl_data_packet_length, c.total_num_le_acl_data_packets = 0, 0
                c.iso_data_packet_length, c.total_num_iso_data_packets = 100, case.get('B_iso', 2)
                h = Host(c, AsyncPipeSink(c))
                await h.reset()
                h.set_packet_sink(Sink())
                return h, h.acl_packet_queue

            host, q = sim.must(mk_reset() if via_host == 'reset' else mk(), 'host')
            if via_host == 'reset':
                sim.probe('host_learnt_shared_buffer_geometry_by_reset')
                # (the isochronous pool is looked at on a host of its own, whose controller also has dedicated LE ACL buffers - more
                # of them than ISO buffers)
                async def mk_iso():
                    from bumble.controller import Controller
                    from bumble.transport.common import AsyncPipeSink
                    c = Controller('Ciso', link=None)
                    c.acl_data_packet_length, c.total_num_acl_data_packets = 27, B
                    c.le_acl_data_packet_length, c.total_num_le_acl_data_packets = 27, case.get('B_iso', 2) + 5
                    c.iso_data_packet_length, c.total_num_iso_data_packets = 100, case.get('B_iso', 2)
                    h = Host(c, AsyncPipeSink(c))
                    await h.reset()
                    return h
                _iso_pool(sim, sim.must(mk_iso(), 'iso host'), case.get('B_iso', 2), hci)

            def connect(hd):
                if via_host == 'reset' and handles.index(hd) % 2 == 1:
                    host.on_packet(bytes(hci.HCI_Connection_Complete_Event(
                        status=0, connection_handle=hd, bd_addr=hci.Address('00:11:22:33:44:66', hci.Address.PUBLIC_DEVICE_ADDRESS),
                        link_type=hci.HCI_Connection_Complete_Event.LinkType.ACL, encryption_enabled=0)))
                    return
                host.on_packet(bytes(hci.HCI_LE_Connection_Complete_Event(
                    status=0, connection_handle=hd, role=0, peer_address_type=0,
                    peer_address=hci.Address('00:11:22:33:44:55'), connection_interval=10,
                    peripheral_latency=0, supervision_timeout=10, central_clock_accuracy=0)))

            for hd in handles:
                connect(hd)
            bye_pids = []
            if case.get('bye'):
                def on_disc(handle, reason):
                    pid = next_id[0]
                    next_id[0] += 1
                    bye_pids.append(pid)
                    try:
                        host.send_acl_sdu(handle, pid.to_bytes(4, 'big') + bytes(23))
                    except Exception:
                        bye_pids.pop()  # refused outright: nothing was queued
                host.on('disconnection', on_disc)
                sim.probe('listener_sends_on_the_connection_that_is_going_away')
        else:
            def send(pkt):
                stub.on_data(pkt.connection_handle, parse_pid(pkt.data))

            async def mkq():
                return DataPacketQueue(27, B, send)

            q = sim.must(mkq(), 'queue')
            host = None

        def model_pending(hd):
            return len(waiting[hd]) + stub.out[hd]

        def account_sends():
            # move what the stub saw from 'waiting' to in flight, checking per-connection order
            for hd in handles:
                sent = stub.sent[hd]
                while sent:
                    pid = sent.pop(0)
                    if not waiting[hd] or waiting[hd][0] != pid:
                        if pid in waiting[hd]:
                            sim.violation('order:reordered', f'handle {hd:#x}: packet {pid} sent before {waiting[hd][0]}')
                            waiting[hd].remove(pid)
                        else:
                            sim.violation('order:unexpected-send', f'handle {hd:#x}: packet {pid} was not waiting (discarded or already sent)')
                    else:
                        waiting[hd].popleft()

        def check(after: str):
            account_sends()
            tot_wait = sum(len(w) for w in waiting.values())
            occ = sum(stub.out.values())
            if tot_wait > 0:
                sim.probe('queue_full_with_waiting')
            if tot_wait > 0 and occ < B:
                sim.violation_once('stall', f'stall:after={after}', f'{tot_wait} packets waiting while the controller has {B - occ} free buffers (after {after})')
            for (hd, task, rec) in list(waiters):
                mp = model_pending(hd)
                if task.done():
                    waiters.remove((hd, task, rec))
                    if mp > 0 and rec['epoch'] == epoch[hd]:
                        how = 'raised' if (not task.cancelled() and task.exception() is not None) else 'returned'
                        sim.violation_once('drain-early', f'drain-early:{how}:over_report={int(stub.over_report_seen)}',
                                      f'drain({hd:#x}) {how} while {len(waiting[hd])} queued + {stub.out[hd]} in flight')
                    else:
                        if rec['waited']:
                            sim.probe('drain_actually_waited')
                else:
                    rec['waited'] = True
                    if mp == 0 or rec['epoch'] != epoch[hd]:
                        sim.violation_once('drain-stuck', f'drain-stuck:after={after}', f'drain({hd:#x}) still waiting although nothing is pending (after {after})')
                        waiters.remove((hd, task, rec))
                        task.cancel()
            # counters
            ovr = int(stub.over_report_seen)
            if q.queued != enq_total:
                sim.violation_once('counters', f'counters:queued:over_report={ovr}', f'queued={q.queued} model={enq_total}')
            if q.completed != done_total:
                sim.violation_once('counters', f'counters:completed:over_report={ovr}:after={after}', f'completed={q.completed} model={done_total}')
            if q.pending != enq_total - done_total:
                sim.violation_once('counters', f'counters:pending:over_report={ovr}:after={after}', f'pending={q.pending} model={enq_total - done_total}')

        epoch = {h: 0 for h in handles}

        def report(hd, n, stale_first=False, honest=True):
            if via_host:
                hs, ns = ([0x0777, hd], [1, n]) if stale_first else ([hd], [n])
                if honest and not stale_first and n >= 2 and case.get('split_reports'):
                    # one event naming the same connection in several entries (the counts add up)
                    hs, ns = [hd] * n, [1] * n
                    sim.fault('completion_report_naming_one_handle_several_times')
                if stale_first:
                    sim.fault('unknown_handle_first_in_a_multi_handle_report')
                host.on_packet(bytes(hci.HCI_Number_Of_Completed_Packets_Event(
                    connection_handles=hs, num_completed_packets=ns)))
            else:
                q.on_packets_completed(n, hd)

        for op in case['ops']:
            kind = op[0]
            hd = handles[op[1] % len(handles)]
            stub.batch = 0
            if kind == 'enq':
                k = op[2]
                pids = []
                for _ in range(k):
                    pid = next_id[0]
                    next_id[0] += 1
                    pids.append(pid)
                    waiting[hd].append(pid)
                enq_total += k
                if via_host:
                    if not connected[hd]:
                        stub.dead.discard(hd)
                        connect(hd)
                        connected[hd] = True
                    data = b''.join(pid.to_bytes(4, 'big') + bytes(23) for pid in pids)
                    host.send_acl_sdu(hd, data)
                else:
                    for pid in pids:
                        data = pid.to_bytes(4, 'big')
                        q.enqueue(hci.HCI_AclDataPacket(hd, 0, 0, len(data), data), hd)
            elif kind == 'complete':
                n = min(op[2], stub.out[hd])
                if n > 0:
                    stub.out[hd] -= n
                    done_total += n
                    report(hd, n, stale_first=len(op) > 3 and bool(op[3]))
            elif kind == 'over':
                have = stub.out[hd]
                n = have + op[2]
                stub.out[hd] = 0
                done_total += have
                stub.over_report_seen = True
                sim.fault('over_report')
                report(hd, n, honest=False)  # (one entry: how a lie spread over several entries is to be read is anybody's guess)
            elif kind == 'zero':
                sim.fault('zero_report')
                report(hd, 0)
            elif kind == 'unknown':
                sim.fault('unknown_handle_report')
                report(0x0777, op[2])
            elif kind == 'flush':
                sim.fault('flush')
                others_waiting = sum(len(w) for h2, w in waiting.items() if h2 != hd)
                if others_waiting:
                    sim.probe('flush_with_other_traffic_queued')
                done_total += len(waiting[hd]) + stub.out[hd]
                waiting[hd].clear()
                stub.out[hd] = 0
                epoch[hd] += 1
                if via_host:
                    if connected[hd]:
                        nb = len(bye_pids)
                        stub.dead.add(hd)
                        host.on_packet(bytes(hci.HCI_Disconnection_Complete_Event(
                            status=0, connection_handle=hd, reason=0x13)))
                        connected[hd] = False
                        # what the listener queued on the dying connection is discarded with the rest (or was handed over at once
                        # and its credit given back by the flush: the controller drops it, it holds no buffer)
                        enq_total += len(bye_pids) - nb
                        done_total += len(bye_pids) - nb
                else:
                    q.flush(hd)
                # a flush releases every waiter of the old epoch
            elif kind == 'drain':
                if via_host:
                    dq = host.get_data_packet_queue(hd)
                else:
                    dq = q
                if dq is not None:
                    task = sim.loop.create_task(dq.drain(hd))
                    waiters.append((hd, task, {'waited': False, 'epoch': epoch[hd]}))
            sim.loop.settle()
            sim.trace.shape(kind, stub.batch)
            check(kind)

        # closing phase: honest completions until everything has been handed over
        for _ in range(10_000):
            account_sends()
            if not any(stub.out.values()):
                break
            for hd in handles:
                if stub.out[hd]:
                    n = stub.out[hd]
                    stub.out[hd] = 0
                    done_total += n
                    report(hd, n)
            sim.loop.settle()
            check('closing')
        account_sends()
        left = sum(len(w) for w in waiting.values())
        if left and not any(s.startswith('stall') for s, _ in sim.violations):
            sim.violation('lost:never-sent', f'{left} packets never handed to the controller')
        for (hd, task, rec) in waiters:
            if not task.done():
                sim.violation('drain-stuck:after=closing', f'drain({hd:#x}) never finished')
                task.cancel()
        return result(sim, nontrivial=sim.probes['queue_full_with_waiting'] > 0)
    finally:
        sim.close()


# --------------------------------------------------------------------------------------
def gen_pipe(rng, tier, seed):
    nops = rng.randint(2, 40)
    ops = []
    for _ in range(nops):
        r = rng.random()
        if r < 0.5:
            ops.append(['write', rng.choice([-1, 0, 1, 1, 2, 5, 20])])  # -1: a truly empty packet
        elif r < 0.62:
            ops.append(['pause'])
        elif r < 0.75:
            ops.append(['resume'])
        else:
            ops.append(['progress', rng.choice([1, 1, 2, 5])])
    return {
        'threshold': rng.choice([0, 0, 1, 4, 10, 100]),
        'with_drain': rng.random() < 0.7,
        'start_at': rng.choice([0, 0, 0, rng.randint(0, nops)]),
        'ops': ops,
    }


def run_pipe(case):
    from bumble.utils import FlowControlAsyncPipe

    sim = Sim(case['seed'])
    try:
        written: list[int] = []
        received: list[int] = []
        pending_drains: collections.deque = collections.deque()
        src = {'paused': 0, 'resumed': 0}
        state = {'paused': False}

        def write_to_sink(packet: bytes) -> None:
            pid = int.from_bytes(packet[:4], 'big') if len(packet) else -1
            if state['paused']:
                sim.probe('write_while_paused')
            received.append(pid)

        async def drain_sink():
            fut = sim.loop.create_future()
            pending_drains.append(fut)
            await fut

        async def mk():
            return FlowControlAsyncPipe(
                lambda: src.__setitem__('paused', src['paused'] + 1),
                lambda: src.__setitem__('resumed', src['resumed'] + 1),
                write_to_sink, drain_sink if case['with_drain'] else None, case['threshold'])

        pipe = sim.must(mk(), 'pipe')
        started = False
        nid = 1

        def start():
            async def go():
                pipe.start()
            sim.must(go(), 'start')

        def check_prefix(after):
            if received != written[: len(received)]:
                # first divergence
                k = next(i for i, (a, b) in enumerate(zip(received, written)) if a != b) if len(received) <= len(written) else len(written)
                if len(set(received)) != len(received):
                    sim.violation('pipe:duplicate', f'sink got {received[-6:]} (duplicate)')
                else:
                    sim.violation('pipe:order', f'sink got {received[:8]} for writes {written[:8]} (first divergence at {k})')

        for i, op in enumerate(case['ops']):
            if not started and i >= case['start_at']:
                start()
                started = True
            kind = op[0]
            if kind == 'write':
                if op[1] < 0:
                    pid = -1  # empty packets carry no id: their position in the sequence is what is checked
                    sim.probe('empty_packet_written')
                else:
                    pid = nid
                    nid += 1
                written.append(pid)
                if pending_drains or state['paused']:
                    sim.probe('write_while_blocked')
                pipe.write(b'' if op[1] < 0 else pid.to_bytes(4, 'big') + bytes(op[1]))
            elif kind == 'pause':
                state['paused'] = True
                pipe.pause()
            elif kind == 'resume':
                state['paused'] = False
                pipe.resume()
            elif kind == 'progress':
                for _ in range(op[1]):
                    if pending_drains:
                        pending_drains.popleft().set_result(None)
                        sim.loop.settle()
            sim.loop.settle()
            sim.trace.shape(kind, len(received))
            check_prefix(kind)
        if not started:
            start()
        state['paused'] = False
        pipe.resume()
        for _ in range(len(written) + 5):
            sim.loop.settle()
            while pending_drains:
                pending_drains.popleft().set_result(None)
                sim.loop.settle()
            if len(received) >= len(written):
                break
        check_prefix('closing')
        if not sim.violations and sorted(received) != sorted(written):
            missing = [w for w in written if w not in received]
            sim.violation('pipe:lost', f'{len(missing)} written packets never reached the sink, e.g. {missing[:5]}')
        elif sim.violations and len(received) != len(written) and not any(s.startswith('pipe:') for s, _ in sim.violations):
            sim.violation('pipe:lost', 'count mismatch')
        pipe.stop()
        return result(sim, nontrivial=sim.probes['write_while_blocked'] > 0 and len(written) > 1)
    finally:
        sim.close()


SCENARIOS = {'queue': (gen_queue, run_queue), 'pipe': (gen_pipe, run_pipe)}
