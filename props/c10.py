"""C10 — the ATT server answers each request exactly once and within ATT_MTU; one indication outstanding.

Real: gatt_server.Server, att, Device.on_gatt_pdu, L2CAP fixed channel and EATT channels, everything below.
Stub: the client - a full bumble device whose ATT fixed-channel handler is replaced by the harness (requests
are raw bytes, responses are captured), plus an enhanced bearer opened with bumble's own L2CAP and driven raw.
"""
from __future__ import annotations

import struct

from bsim import gattdb
from bsim.sim import PROFILE_NAMES, Sim, World, describe_task, result

PROPERTY = 'C10'
PLAN = {
    'quick': [('att', 2400)],
    'thorough': [('att', 90000)],
}
WALL_CAP = {'quick': 150, 'thorough': 1500}
EVIDENCE = {
    'level': 'exploration',
    'rule': ('generated attribute database (1-4 services, includes, characteristics with every property mix, descriptors, '
             '16/128-bit UUIDs, values 0..512 bytes around k*(MTU-1) and MTU-3, static / sync-callback / async-callback values, '
             'several permission masks) and a program of 5-60 raw ATT PDUs over all opcodes 0x00-0xFF on the fixed bearer and on '
             'an enhanced bearer: well-formed requests with valid and invalid handles, inverted ranges, empty and over-long handle '
             'sets, offsets past the end, commands, confirmations with and without a pending indication, undefined opcodes, one MTU '
             'exchange at an arbitrary point, server notify/indicate calls with delayed confirmations. Non-trivial: at least 4 '
             'distinct request opcodes were answered; distinct = distinct sequence of (opcode, verdict class).'),
    'real': ['bumble.gatt_server.Server', 'bumble.att', 'bumble.device.Device (on_gatt_pdu)', 'bumble.l2cap (fixed channel, EATT CoC)'],
    'stub': ['raw ATT client on a real device (fixed-channel handler replaced)'],
    'assumptions': ['the client sends the next request only after the verdict on the previous one',
                    'field-level malformed PDUs belong to C17; here every PDU of a defined opcode has a well-formed layout',
                    'responses may take up to the 30 s ATT transaction time (virtual)', 'at most one MTU exchange per run'],
}

ATT_CID = 4
EATT_PSM = 0x27
DEFINED_REQUESTS = {0x02, 0x04, 0x06, 0x08, 0x0A, 0x0C, 0x0E, 0x10, 0x12, 0x16, 0x18, 0x20}
OPNAME = {0x02: 'exchange_mtu', 0x04: 'find_information', 0x06: 'find_by_type_value', 0x08: 'read_by_type', 0x0A: 'read', 0x0C: 'read_blob',
          0x0E: 'read_multiple', 0x10: 'read_by_group_type', 0x12: 'write', 0x16: 'prepare_write', 0x18: 'execute_write', 0x20: 'read_multiple_variable'}
PERM_POOL = [0x03, 0x03, 0x01, 0x02, 0x07, 0x0B, 0x13, 0x43, 0x83, 0x00, 0x3F]


def _href(rng):
    return rng.choice([['val'], ['val'], ['val'], ['decl'], ['cccd'], ['desc'], ['svc'], ['zero'], ['max'], ['past'], ['abs', rng.randint(1, 12)]]) + [rng.randrange(1000)]


def _range(rng):
    r = rng.random()
    if r < 0.45:
        return [['abs', 1, 0], ['max', 0]]
    if r < 0.6:
        return [_href(rng), ['max', 0]]
    if r < 0.75:
        return [_href(rng), _href(rng)]
    if r < 0.85:
        return [['zero', 0], ['max', 0]]
    return [['max', 0], ['abs', 1, 0]]


def gen_att(rng, tier, seed):
    mtu_hint = rng.choice([23, 23, 24, 64, 185, 517])
    db = gattdb.gen_db(rng, max_services=4, max_chars=4, perms_pool=PERM_POOL, mtu_hint=mtu_hint)
    ops = []
    # an application whose value functions raise (the peer's requests on that attribute still get their one answer)
    for svc in db['services']:
        for c in svc['chars']:
            if rng.random() < 0.08:
                # ('typed': a text characteristic behind an adapter; a write that is not valid UTF-8 cannot be decoded)
                c['kind'] = rng.choice(['raising_cb', 'raising_async_cb', 'typed', 'typed'])
                if c['kind'] == 'typed':
                    c['perms'] = 0x03  # open for reading and writing, so that the value does get as far as the adapter
    # a service declaration that refuses to be read on this (plain) link: Read By Group Type / Read By Type over it still get one answer
    for svc in db['services']:
        if rng.random() < 0.12:
            svc['decl_perms'] = 0x01 | rng.choice([0x04, 0x10, 0x40])
    twins = rng.random() < 0.2
    if twins:
        # many instances of one service: a search by UUID has more matches than fit into one response
        db['services'][0]['primary'] = True
        for _ in range(rng.randint(6, 14)):
            db['services'].append({'uuid': db['services'][0]['uuid'], 'primary': True, 'includes': [], 'chars': []})
        for _ in range(rng.randint(1, 3)):
            ops.append(['req', rng.choice(['fixed', 'fixed', 'eatt']), 'find_by_type_value', [['abs', 1, 0], ['max', 0]], '2800', 'svc'])
    mtu_done = False
    nops = rng.randint(5, 60 if tier == 'thorough' else 40)
    for _ in range(nops):
        bearer = 'eatt' if rng.random() < 0.3 else 'fixed'
        r = rng.random()
        if r < 0.05 and not mtu_done:
            mtu_done = True
            ops.append(['mtu', rng.choice([mtu_hint, 23, 22, 0, 100, 517, 600, 65535])])
        elif r < 0.06 and bearer == 'eatt':
            # an Exchange MTU Request on an enhanced bearer, with a receive MTU below the minimum so that nothing may change: it is a
            # request all the same and gets its one answer (a response, or an error response)
            ops.append(['mtu', rng.choice([22, 0, 1]), 'eatt'])
        elif r < 0.13:
            ops.append(['req', bearer, 'find_information', _range(rng)])
        elif r < 0.19:
            ops.append(['req', bearer, 'find_by_type_value', _range(rng), rng.choice(['2800', '2801', '2803', 'char', 'cuuid', 'cuuid']), rng.choice(['svc', 'val', 'junk'])])
        elif r < 0.29:
            ops.append(['req', bearer, 'read_by_type', _range(rng), rng.choice(['2803', '2802', 'char', 'char', '2902', 'rand16', 'rand128'])])
        elif r < 0.39:
            ops.append(['req', bearer, 'read', _href(rng)])
        elif r < 0.46:
            ops.append(['req', bearer, 'read_blob', _href(rng), rng.choice([0, 1, 22, 23, 100, 511, 512, 513, 65535])])
        elif r < 0.53:
            ops.append(['req', bearer, 'read_multiple', [_href(rng) for _ in range(rng.choice([0, 1, 2, 2, 3, 8, 40]))]])
        elif r < 0.59:
            ops.append(['req', bearer, 'read_multiple_variable', [_href(rng) for _ in range(rng.choice([0, 1, 2, 2, 3, 8, 40]))]])
        elif r < 0.66:
            ops.append(['req', bearer, 'read_by_group_type', _range(rng), rng.choice(['2800', '2800', '2801', '2803', 'rand16', 'rand128'])])
        elif r < 0.73:
            ops.append(['req', bearer, 'write', _href(rng), rng.choice([0, 1, 2, 20, 100, 512, 513])])
        elif r < 0.76:
            ops.append(['req', bearer, 'prepare_write', _href(rng), rng.choice([0, 5]), rng.choice([0, 10])])
        elif r < 0.78:
            ops.append(['req', bearer, 'execute_write', rng.choice([0, 1])])
        elif r < 0.83:
            ops.append(['cmd', bearer, rng.choice(['write_cmd', 'write_cmd', 'signed_write']), _href(rng), rng.choice([0, 1, 20, 513])])
        elif r < 0.86:
            ops.append(['spurious_confirm', bearer])
        elif r < 0.92:
            op = rng.randrange(256)
            ops.append(['raw', bearer, op, rng.choice([0, 0, 1, 2, 4, 20])])
        elif r < 0.96:
            ops.append(['subscribe', bearer, rng.randrange(1000), rng.choice([1, 2, 3, 0])])
        else:
            ops.append(['push', rng.randrange(1000), rng.choice(['notify', 'indicate', 'indicate']), rng.choice([0, 1, 20, 22, 100, 600]),
                        rng.choice([0.0, 0.01, 1.0, 10.0, 35.0])])  # 35 s: the confirmation comes after the server gave up (30 s)
    return {
        'db': db, 'ops': ops, 'server_mtu': rng.choice([23, mtu_hint, 100, 517]), 'eatt_mtu': [rng.choice([64, 100, 247, 512]), rng.choice([64, 100, 247, 512])],
        'profile': rng.choice(PROFILE_NAMES), 'use_eatt': any(len(o) > 1 and o[1] == 'eatt' for o in ops), 'double_confirm': rng.random() < 0.2,
    }


class Bearer:
    def __init__(self, name, send, mtu):
        self.name = name
        self.send = send
        self.mtu = mtu
        self.rx = []  # server PDUs that are not notifications/indications
        self.unsolicited = []
        self.ind_outstanding = 0
        self.max_len_seen = 0


def run_att(case):
    from bumble import att, gatt, l2cap

    sim = Sim(case['seed'], case.get('profile', 'zero'), slow_node='N1')
    try:
        world = World(sim, 2)
        srv_dev = world[1].device
        built = gattdb.build(srv_dev, case['db'])
        srv_dev.gatt_server.max_mtu = case['server_mtu']
        if case['use_eatt']:
            srv_dev.gatt_server.register_eatt(l2cap.LeCreditBasedChannelSpec(psm=EATT_PSM, mtu=case['eatt_mtu'][1], mps=64, max_credits=8))
        world.power_on()
        c0, c1 = world.connect_le(0, 1)
        server = srv_dev.gatt_server
        attrs = list(server.attributes)
        nattr = len(attrs)
        by_kind = {'val': [], 'decl': [], 'cccd': [], 'desc': [], 'svc': []}
        for a_ in attrs:
            t = bytes(a_.type.to_pdu_bytes())
            cls = type(a_).__name__
            if cls == 'Service' or cls.endswith('Service'):
                by_kind['svc'].append(a_.handle)
            elif cls == 'CharacteristicDeclaration' or cls == 'IncludedServiceDeclaration':
                by_kind['decl'].append(a_.handle)
            elif cls == 'Characteristic' or cls.endswith('Characteristic') or isinstance(a_, gatt.Characteristic):
                by_kind['val'].append(a_.handle)
            elif cls == 'Descriptor':
                if t in (b'\x02\x29', bytes.fromhex('0229')):
                    by_kind['cccd'].append(a_.handle)
                else:
                    by_kind['desc'].append(a_.handle)
        gen_chars = [ch for ch in built.char_objs.values()]
        sub_chars = [ch for ch in gen_chars if ch.properties & 0x30]

        # ---------------------------------------------------------------- raw client
        fixed = Bearer('fixed', lambda pdu: world[0].host.send_l2cap_pdu(c0.handle, ATT_CID, pdu), 23)
        bearers = {'fixed': fixed}

        def on_server_pdu(b: Bearer, pdu: bytes):
            if not pdu:
                sim.violation_once('empty', 'server-sent-empty-pdu', '')
                return
            if len(pdu) > b.mtu:
                sim.violation_once('mtu', f'pdu-exceeds-att-mtu:opcode={pdu[0]:#04x}:{b.name}', f'{len(pdu)} bytes on a bearer with ATT_MTU {b.mtu}')
            op = pdu[0]
            if op == 0x01 and len(pdu) >= 2 and pdu[1] == 0x1E:
                sim.violation_once('confreply', f'reply-to-a-confirmation:{b.name}', f'the server answered a Handle Value Confirmation with {pdu.hex()}')
            if op == 0x1B:
                sim.probe('notification_received')
                b.unsolicited.append(pdu)
            elif op == 0x1D:
                sim.probe('indication_received')
                b.unsolicited.append(pdu)
                b.ind_outstanding += 1
                if b.ind_outstanding > 1:
                    sim.violation_once('ind', f'two-indications-outstanding:{b.name}', 'a second indication arrived before the first was confirmed')
                delay = confirm_delay[0]
                sim.loop.sim_after(delay, confirm, b)
            else:
                b.rx.append(pdu)

        confirm_delay = [0.0]
        confirm_late = [False]

        def confirm(b: Bearer):
            if b.ind_outstanding > 0:
                b.ind_outstanding -= 1
                b.send(bytes([0x1E]))
                if case.get('double_confirm'):
                    b.send(bytes([0x1E]))  # a second confirmation right behind the first: not a request either
                    sim.probe('two_confirmations_back_to_back')
                if confirm_late[0]:
                    sim.probe('confirmation_after_the_indication_timed_out')

        world[0].device.l2cap_channel_manager.register_fixed_channel(ATT_CID, lambda handle, pdu: on_server_pdu(fixed, bytes(pdu)))
        if case['use_eatt']:
            st, t = sim.run(c0.create_l2cap_channel(spec=l2cap.LeCreditBasedChannelSpec(psm=EATT_PSM, mtu=case['eatt_mtu'][0], mps=64, max_credits=8)), 30.0)
            if st != 'done' or t.exception() is not None:
                sim.violation_once('eatt', 'eatt-bearer-open-failed', str(st if st != 'done' else t.exception()))
                return result(sim, nontrivial=False)
            chan = t.result()
            eb = Bearer('eatt', lambda pdu: sim.call(chan.write, pdu), min(case['eatt_mtu']))
            chan.sink = lambda pdu: on_server_pdu(eb, bytes(pdu))
            bearers['eatt'] = eb
            sim.loop.settle()

        # ---------------------------------------------------------------- encoders
        def H(ref):
            kind = ref[0]
            pick = ref[-1]
            if kind == 'zero':
                return 0
            if kind == 'max':
                return 0xFFFF
            if kind == 'past':
                return nattr + 1 + pick % 3
            if kind == 'abs':
                return ref[1]
            lst = by_kind.get(kind) or by_kind['val'] or [1]
            return lst[pick % len(lst)]

        def U(sym, pick=0):
            if sym == 'char':
                if gen_chars:
                    return gattdb.uuid_bytes_from_obj(gen_chars[pick % len(gen_chars)].type)
                return bytes.fromhex('00f0')
            if sym == 'rand16':
                return bytes([0x77, 0xEE])
            if sym == 'rand128':
                return bytes(range(16))
            return bytes.fromhex(sym)[::-1]

        def encode(op):
            name = op[2]
            if name == 'find_information':
                return struct.pack('<BHH', 0x04, H(op[3][0]), H(op[3][1]))
            if name == 'find_by_type_value':
                if op[4] == 'cuuid':
                    # the type of a generated characteristic value (which may be protected)
                    c16 = [c for c in gen_chars if len(bytes(c.uuid.to_pdu_bytes())) == 2]
                    t = bytes(c16[op[3][0][-1] % len(c16)].uuid.to_pdu_bytes()) if c16 else b'\x00\x28'
                else:
                    t = U(op[4])[:2] if op[4] != 'char' else b'\x00\x28'
                if op[5] == 'svc' and built.services:
                    v = bytes(built.services[0].uuid.to_pdu_bytes())
                elif op[5] == 'val' and gen_chars:
                    v = gattdb.current_value(gen_chars[0])[:10]
                else:
                    v = b'junk'
                return struct.pack('<BHH', 0x06, H(op[3][0]), H(op[3][1])) + t + v
            if name == 'read_by_type':
                return struct.pack('<BHH', 0x08, H(op[3][0]), H(op[3][1])) + U(op[4], op[3][0][-1])
            if name == 'read':
                return struct.pack('<BH', 0x0A, H(op[3]))
            if name == 'read_blob':
                return struct.pack('<BHH', 0x0C, H(op[3]), op[4])
            if name == 'read_multiple':
                return bytes([0x0E]) + b''.join(struct.pack('<H', H(h)) for h in op[3])
            if name == 'read_multiple_variable':
                return bytes([0x20]) + b''.join(struct.pack('<H', H(h)) for h in op[3])
            if name == 'read_by_group_type':
                return struct.pack('<BHH', 0x10, H(op[3][0]), H(op[3][1])) + U(op[4])
            if name == 'write':
                body = bytes((i * 5 + 1) & 0xFF for i in range(op[4]))
                if op[4] >= 2 and (H(op[3]) + op[4]) % 2:
                    body = b'\xc3\x28' + body[2:]  # not UTF-8: a typed (text) characteristic cannot decode it
                return struct.pack('<BH', 0x12, H(op[3])) + body
            if name == 'prepare_write':
                return struct.pack('<BHH', 0x16, H(op[3]), op[4]) + bytes(op[5])
            if name == 'execute_write':
                return bytes([0x18, op[3]])
            if name == 'write_cmd':
                return struct.pack('<BH', 0x52, H(op[3])) + bytes(op[4])
            if name == 'signed_write':
                return struct.pack('<BH', 0xD2, H(op[3])) + bytes(op[4]) + bytes(12)
            raise ValueError(name)

        def clamp(pdu: bytes, b: Bearer) -> bytes:
            # a well-behaved client never sends more than the bearer's ATT_MTU (handle sets keep whole handles)
            if len(pdu) <= b.mtu:
                return pdu
            if pdu[0] in (0x0E, 0x20):
                return pdu[:1 + 2 * ((b.mtu - 1) // 2)]
            if pdu[0] == 0xD2:
                return pdu[:b.mtu - 12] + bytes(12)
            return pdu[:b.mtu]

        answered = set()
        shape = []

        def expect_one(b: Bearer, pdu: bytes, label: str):
            opcode = pdu[0]
            before = len(b.rx)
            b.send(pdu)
            st = sim.loop.drive(lambda: len(b.rx) > before, vt_budget=31.0, step_budget=300_000)
            sim.loop.settle()
            sim.loop.advance(0.3)
            new = b.rx[before:]
            if len(new) == 0:
                exc = next((e[1] for e in reversed(sim.delivery_exceptions) if e[0].startswith('N1')), 'none')
                sim.violation_once(f'noresp:{label}', f'no-response:{label}:{b.name}:raised={exc}', f'request {pdu[:12].hex()} ({len(pdu)} bytes) got no response within the 30 s transaction time')
                shape.append((opcode, 'none'))
                return None
            if len(new) > 1:
                sim.violation_once(f'dupresp:{label}', f'two-responses:{label}:{b.name}', f'{[x[:1].hex() for x in new]}')
            r = new[0]
            if r[0] == 0x01:
                if len(r) < 5 or r[1] != opcode:
                    sim.violation_once(f'errop:{label}', f'error-response-names-wrong-request:{label}', f'error response {r.hex()} to opcode {opcode:#04x}')
                shape.append((opcode, 'err', r[4] if len(r) > 4 else -1))
            elif r[0] == opcode + 1:
                shape.append((opcode, 'ok'))
                answered.add(opcode)
            else:
                sim.violation_once(f'wrongresp:{label}', f'wrong-response-opcode:{label}', f'got {r[0]:#04x} for request {opcode:#04x}')
                shape.append((opcode, 'wrong'))
            return r

        def expect_none(b: Bearer, pdu: bytes, label: str):
            before = len(b.rx)
            b.send(pdu)
            sim.loop.settle()
            sim.loop.advance(0.5)
            sim.loop.settle()
            if len(b.rx) > before:
                sim.violation_once(f'spurious:{label}', f'response-to-non-request:{label}:{b.name}', f'{b.rx[before][:6].hex()} sent in reaction to {pdu[:4].hex()}')
            shape.append((pdu[0], 'silent'))

        push_tasks = []
        for op in case['ops']:
            kind = op[0]
            if kind == 'mtu' and len(op) > 2:
                if op[2] in bearers and op[1] < 23:
                    expect_one(bearers[op[2]], struct.pack('<BH', 0x02, op[1]), 'exchange_mtu')
                    sim.probe('exchange_mtu_on_an_enhanced_bearer')
                continue
            if kind == 'mtu':
                r = expect_one(fixed, struct.pack('<BH', 0x02, op[1]), 'exchange_mtu')
                if r is not None and r[0] == 0x03 and len(r) >= 3:
                    server_rx = struct.unpack_from('<H', r, 1)[0]
                    if op[1] >= 23:
                        fixed.mtu = max(23, min(op[1], server_rx))
                        sim.probe('mtu_exchanged_above_default' if fixed.mtu > 23 else 'mtu_exchanged_default')
                continue
            if kind == 'push':
                if not sub_chars:
                    continue
                ch = sub_chars[op[1] % len(sub_chars)]
                confirm_delay[0] = op[4]
                if op[4] > 30.0 and op[2] == 'indicate':
                    confirm_late[0] = True
                value = bytes((7 * i) & 0xFF for i in range(op[3]))
                coro = server.indicate_subscribers(ch, value) if op[2] == 'indicate' else server.notify_subscribers(ch, value)
                push_tasks.append((op[2], sim.loop.create_task(coro)))
                sim.loop.settle()
                shape.append(('push', op[2]))
                continue
            b = bearers.get(op[1], fixed)
            if kind == 'req':
                pdu = clamp(encode(op), b)
                expect_one(b, pdu, op[2])
            elif kind == 'cmd':
                expect_none(b, clamp(encode(op), b), op[2])
            elif kind == 'spurious_confirm':
                if b.ind_outstanding == 0:
                    expect_none(b, bytes([0x1E]), 'confirmation')
            elif kind == 'subscribe':
                if not by_kind['cccd']:
                    continue
                hnd = by_kind['cccd'][op[2] % len(by_kind['cccd'])]
                expect_one(b, struct.pack('<BHH', 0x12, hnd, op[3]), 'write')
            elif kind == 'raw':
                opcode, n = op[2], op[3]
                pdu = bytes([opcode]) + bytes((3 * i + 1) & 0xFF for i in range(n))
                if opcode in (0x02, 0x52, 0xD2, 0x1E) or (opcode in att.ATT_PDU.pdu_classes and opcode not in DEFINED_REQUESTS):
                    continue  # commands / confirmations / server-to-client PDUs with an arbitrary layout are C17's; 0x02 would renegotiate the MTU behind the monitor's back
                # (a request with a defined opcode and a malformed layout is still a request: exactly one answer, see DESIGN 11.1)
                if opcode & 0x40:
                    expect_none(b, pdu, 'undefined-command')
                elif opcode in (0x1B, 0x1D):
                    continue  # a notification/indication is for the peer's GATT client role (which confirms it), not its server
                elif opcode & 1:
                    expect_none(b, pdu, 'server-to-client-opcode')
                else:
                    expect_one(b, pdu, 'undefined-request')
        # let pending indications finish (confirmations are delayed, never withheld)
        if push_tasks:
            st = sim.loop.drive(lambda: all(t.done() for _, t in push_tasks), vt_budget=200.0, step_budget=500_000)
            for kind_, t in push_tasks:
                if not t.done():
                    sim.violation_once('pushhang', f'{kind_}-call-never-returned', describe_task(t))
                    t.cancel()
            if confirm_late[0]:
                # the late confirmations arrive now; then the indication slot must be free again
                sim.loop.advance(12.0)
                if sub_chars:
                    for b_ in bearers.values():
                        b_.unsolicited.clear()
                    confirm_delay[0] = 0.0
                    t2 = sim.loop.create_task(server.indicate_subscribers(sub_chars[0], b'after-late-confirmation'))
                    sim.loop.drive(t2.done, vt_budget=60.0, step_budget=300_000)
                    if not t2.done():
                        sim.violation_once('pushhang', 'indicate-call-never-returned:after-late-confirmation', describe_task(t2))
                        t2.cancel()
                    elif t2.exception() is not None:
                        sim.violation_once('pushexc', f'indicate-raised:after-late-confirmation:{type(t2.exception()).__name__}', repr(t2.exception()))
        sim.trace.shape(tuple(shape))
        return result(sim, nontrivial=len(answered) >= 4)
    finally:
        sim.close()


SCENARIOS = {'att': (gen_att, run_att)}
