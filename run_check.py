import os
import sys

HERE = os.path.dirname(os.path.abspath(__file__))
# bumble is imported from /repo's current working tree (or BUMBLE_SRC for scratch copies)
sys.path.insert(0, HERE)
sys.path.insert(0, os.environ.get('BUMBLE_SRC', '/repo'))

from bsim import runner  # noqa: E402

if __name__ == '__main__':
    sys.exit(runner.main())
