"""Determinism self-test: every (property, scenario, seed) digest must be identical
 (a) twice in one warm worker, (b) in fresh interpreters under PYTHONHASHSEED 0, 1 and 12345.
Usage: selftest/determinism.py C04 [C03 ...] [--n 200]
"""
import importlib
import json
import os
import subprocess
import sys

HERE = os.path.dirname(os.path.dirname(os.path.abspath(__file__)))
sys.path.insert(0, HERE)
sys.path.insert(0, os.environ.get('BUMBLE_SRC', '/repo'))


def digests(prop, n, base):
    from bsim import rng, runner

    mod = importlib.import_module(runner.PROPS[prop])
    out = {}
    for scen, (gen, _run) in mod.SCENARIOS.items():
        for i in range(n):
            seed = rng.sub_seed(base, f'det/{prop}/{scen}/{i}')
            case = gen(rng.derive(seed, 'gen'), 'quick', seed, i) if getattr(gen, 'wants_index', False) else gen(rng.derive(seed, 'gen'), 'quick', seed)
            case['scenario'] = scen
            case['seed'] = seed
            case = runner.normalise(case)
            r = runner.run_case(mod, case)
            out[f'{scen}/{i}'] = (r.get('digest'), r.get('harness_error'), sorted(s for s, _ in r['violations']))
    return out


def main():
    args = sys.argv[1:]
    n = 100
    if '--n' in args:
        k = args.index('--n')
        n = int(args[k + 1])
        del args[k:k + 2]
    if '--child' in args:
        prop = args[args.index('--child') + 1]
        json.dump(digests(prop, n, 99), sys.stdout)
        return 0
    bad = 0
    for prop in args:
        a = digests(prop, n, 99)
        b = digests(prop, n, 99)
        for k in a:
            if a[k] != b[k]:
                print(f'NONDETERMINISTIC (warm) {prop} {k}: {a[k]} vs {b[k]}')
                bad += 1
        procs = []
        for hs in ('0', '1', '12345'):
            env = dict(os.environ, PYTHONHASHSEED=hs, PYTHONDONTWRITEBYTECODE='1')
            procs.append((hs, subprocess.Popen([sys.executable, __file__, '--child', prop, '--n', str(n)], env=env, stdout=subprocess.PIPE, text=True)))
        for hs, p in procs:
            out, _ = p.communicate(timeout=3600)
            c = {k: (v[0], v[1], v[2]) for k, v in json.loads(out).items()}
            for k in a:
                if tuple(c[k]) != tuple(a[k]):
                    print(f'NONDETERMINISTIC (fresh, hashseed={hs}) {prop} {k}: {a[k]} vs {c[k]}')
                    bad += 1
        herr = sum(1 for v in a.values() if v[1])
        print(f'{prop}: {len(a)} cases x (2 warm + 3 fresh interpreters); harness errors {herr}; mismatches so far {bad}')
    print('DETERMINISM', 'FAILED' if bad else 'ok')
    return 1 if bad else 0


if __name__ == '__main__':
    sys.exit(main())
