"""RawPeer: a peer that is NOT bumble above the ACL link.

Underneath it is a real Device+Host+Controller on the same link (so advertising, connecting, HCI and ACL
are real); its 'l2cap_pdu' listener is detached from bumble's ChannelManager and handed to small scripted
upper layers written from the specifications. LeCocPeer is a reference LE credit-based channel endpoint
(Core Vol 3 Part A 4.22-4.26, 10.1) that allocates CIDs from the TOP of the dynamic range and returns
credits in its own granularity.
"""
from __future__ import annotations

import collections
import struct

LE_SIG = 0x0005


class RawPeer:
    def __init__(self, sim, node) -> None:
        self.sim = sim
        self.node = node
        self.host = node.host
        node.device.host.remove_listener('l2cap_pdu', node.device.on_l2cap_pdu)
        self.host.on('l2cap_pdu', self._on_pdu)
        self.handlers = {}  # cid -> fn(handle, payload)
        self.log = []

    def _on_pdu(self, handle, cid, pdu) -> None:
        h = self.handlers.get(cid)
        if h is not None:
            h(handle, bytes(pdu))
        else:
            self.log.append((handle, cid, bytes(pdu)))

    def send(self, handle, cid, payload: bytes) -> None:
        self.host.send_l2cap_pdu(handle, cid, payload)


class CocEnd:
    """One endpoint of an LE credit-based channel on the raw peer."""

    def __init__(self, peer: 'LeCocPeer', handle, scid, mtu, mps, credits, policy) -> None:
        self.peer = peer
        self.handle = handle
        self.scid = scid  # our CID
        self.dcid = 0  # bumble's CID
        self.mtu = mtu
        self.mps = mps
        self.initial = credits  # credits we grant initially
        self.policy = policy  # 'one' | 'bulk' | 'zero'
        self.granted = credits  # total credits granted to bumble so far
        self.frames_rx = 0
        self.remote_mtu = 0
        self.remote_mps = 0
        self.tx_credits = 0  # credits bumble granted us
        self.rx_stream = bytearray()
        self.rx_sdu = None
        self.rx_sdu_len = 0
        self.out = collections.deque()  # SDUs (bytes) waiting
        self.out_frames = collections.deque()
        self.open = False
        self.closed = False
        self.violations = []

    # ---- receive path (bumble -> us): this is also the credit/MPS/MTU monitor
    def on_frame(self, payload: bytes) -> None:
        self.frames_rx += 1
        if self.frames_rx > self.granted:
            self.violations.append(('credit', f'frame #{self.frames_rx} received, only {self.granted} credits granted'))
        if len(payload) > self.mps:
            self.violations.append(('mps', f'frame payload {len(payload)} > our MPS {self.mps}'))
        if self.rx_sdu is None:
            if len(payload) < 2:
                self.violations.append(('sdu', 'first frame of an SDU shorter than the SDU length field'))
                return
            self.rx_sdu_len = struct.unpack_from('<H', payload, 0)[0]
            if self.rx_sdu_len > self.mtu:
                self.violations.append(('mtu', f'SDU length {self.rx_sdu_len} > our MTU {self.mtu}'))
            self.rx_sdu = bytearray(payload[2:])
        else:
            self.rx_sdu += payload
        if len(self.rx_sdu) > self.rx_sdu_len:
            self.violations.append(('sdu', f'SDU overflow: {len(self.rx_sdu)} > announced {self.rx_sdu_len}'))
            self.rx_sdu = None
        elif len(self.rx_sdu) == self.rx_sdu_len:
            self.rx_stream += self.rx_sdu
            self.rx_sdu = None
        self._return_credits()

    def _return_credits(self) -> None:
        outstanding = self.granted - self.frames_rx  # credits bumble still holds
        give = 0
        if self.policy == 'one':
            give = self.initial - outstanding
        elif self.policy == 'bulk':
            if outstanding <= self.initial // 2:
                give = self.initial - outstanding
        else:  # 'zero'
            if outstanding == 0:
                give = self.initial
        if give > 0:
            self.granted += give
            self.peer.sig(self.handle, 0x16, struct.pack('<HH', self.scid, give))
            self.peer.sim.probe('raw_peer_returned_credits')

    # ---- send path (us -> bumble)
    def write(self, data: bytes) -> None:
        # one SDU per write, cut to bumble's MTU
        off = 0
        while off < len(data):
            sdu = data[off:off + self.remote_mtu]
            off += len(sdu)
            first = struct.pack('<H', len(sdu)) + sdu
            pos = 0
            while pos < len(first):
                self.out_frames.append(first[pos:pos + self.remote_mps])
                pos += self.remote_mps
        self.pump()

    def pump(self) -> None:
        while self.out_frames and self.tx_credits > 0 and self.open:
            self.tx_credits -= 1
            self.peer.raw.send(self.handle, self.dcid, self.out_frames.popleft())
        if self.out_frames and self.tx_credits == 0:
            self.peer.sim.probe('raw_peer_waited_for_credits')

    def on_credits(self, n: int) -> None:
        self.tx_credits += n
        if self.tx_credits > 65535:
            self.violations.append(('credit-overflow', f'credits accumulated to {self.tx_credits}'))
        self.pump()


class LeCocPeer:
    """LE signalling for credit-based channels on a RawPeer (acceptor and initiator, LE CoC and enhanced)."""

    TOP_CID = 0x007F

    def __init__(self, sim, raw: RawPeer, mtu, mps, credits, policy, cid_from_top=True) -> None:
        self.sim = sim
        self.raw = raw
        self.mtu, self.mps, self.credits, self.policy = mtu, mps, credits, policy
        self.cid_from_top = cid_from_top
        self.ends = {}  # (handle, scid) -> CocEnd
        self.by_dcid = {}
        self.next_id = 0x20
        self.psms = set()
        self.pending = {}  # identifier -> list[CocEnd]
        self.accepted = []
        self.rejects = []
        raw.handlers[LE_SIG] = self.on_sig

    def alloc_cid(self, handle) -> int:
        used = {s for (h, s) in self.ends if h == handle}
        rng = range(self.TOP_CID, 0x003F, -1) if self.cid_from_top else range(0x0040, 0x0080)
        for c in rng:
            if c not in used:
                return c
        raise RuntimeError('no cid')

    def sig(self, handle, code, data, identifier=None) -> int:
        if identifier is None:
            self.next_id = self.next_id % 255 + 1
            identifier = self.next_id
        self.raw.send(handle, LE_SIG, struct.pack('<BBH', code, identifier, len(data)) + data)
        return identifier

    def new_end(self, handle) -> CocEnd:
        scid = self.alloc_cid(handle)
        end = CocEnd(self, handle, scid, self.mtu, self.mps, self.credits, self.policy)
        self.ends[(handle, scid)] = end
        self.raw.handlers[scid] = self._data
        return end

    def _data(self, handle, payload) -> None:
        # find the end by our CID: handlers are per CID, look it up again
        pass

    def on_sig(self, handle, payload: bytes) -> None:
        if len(payload) < 4:
            return
        code, ident, ln = struct.unpack_from('<BBH', payload, 0)
        data = payload[4:4 + ln]
        if code == 0x14:  # LE Credit Based Connection Request
            psm, scid, mtu, mps, credits = struct.unpack_from('<HHHHH', data, 0)
            if psm not in self.psms:
                self.sig(handle, 0x15, struct.pack('<HHHHH', 0, 0, 0, 0, 0x0002), ident)
                return
            end = self.new_end(handle)
            end.dcid, end.remote_mtu, end.remote_mps, end.tx_credits = scid, mtu, mps, credits
            end.open = True
            self._bind(end)
            self.accepted.append(end)
            self.sig(handle, 0x15, struct.pack('<HHHHH', end.scid, end.mtu, end.mps, end.initial, 0), ident)
        elif code == 0x15:  # LE Credit Based Connection Response
            ends = self.pending.pop(ident, None)
            if not ends:
                return
            dcid, mtu, mps, credits, res = struct.unpack_from('<HHHHH', data, 0)
            end = ends[0]
            if res == 0:
                end.dcid, end.remote_mtu, end.remote_mps, end.tx_credits = dcid, mtu, mps, credits
                end.open = True
                self._bind(end)
            else:
                end.closed = True
                end.result = res
                self.ends.pop((handle, end.scid), None)
        elif code == 0x17:  # Credit Based Connection Request (enhanced)
            psm, mtu, mps, credits = struct.unpack_from('<HHHH', data, 0)
            scids = [struct.unpack_from('<H', data, 8 + 2 * i)[0] for i in range((len(data) - 8) // 2)]
            if psm not in self.psms:
                self.sig(handle, 0x18, struct.pack('<HHHH', 0, 0, 0, 0x0002), ident)
                return
            mine = []
            for scid in scids:
                end = self.new_end(handle)
                end.dcid, end.remote_mtu, end.remote_mps, end.tx_credits = scid, mtu, mps, credits
                end.open = True
                self._bind(end)
                self.accepted.append(end)
                mine.append(end.scid)
            self.sig(handle, 0x18, struct.pack('<HHHH', self.mtu, self.mps, self.credits, 0) + b''.join(struct.pack('<H', c) for c in mine), ident)
        elif code == 0x18:  # Credit Based Connection Response (enhanced)
            ends = self.pending.pop(ident, None)
            if not ends:
                return
            mtu, mps, credits, res = struct.unpack_from('<HHHH', data, 0)
            dcids = [struct.unpack_from('<H', data, 8 + 2 * i)[0] for i in range((len(data) - 8) // 2)]
            for end, dcid in zip(ends, dcids):
                if res == 0 and dcid != 0:
                    end.dcid, end.remote_mtu, end.remote_mps, end.tx_credits = dcid, mtu, mps, credits
                    end.open = True
                    self._bind(end)
                else:
                    end.closed = True
                    end.result = res
        elif code == 0x16:  # Flow Control Credit: cid is the sender's (bumble's) channel endpoint
            cid, n = struct.unpack_from('<HH', data, 0)
            end = self.by_dcid.get((handle, cid))
            if end is not None:
                end.on_credits(n)
            else:
                self.rejects.append(('credit-for-unknown-cid', cid))
        elif code == 0x06:  # Disconnection Request: dcid = our cid, scid = bumble's
            dcid, scid = struct.unpack_from('<HH', data, 0)
            end = self.ends.get((handle, dcid))
            if end is not None and end.dcid == scid:
                end.open = False
                end.closed = True
                self.ends.pop((handle, dcid), None)
                self.by_dcid.pop((handle, scid), None)
                self.sig(handle, 0x07, struct.pack('<HH', dcid, scid), ident)
            else:
                self.sig(handle, 0x01, struct.pack('<HHH', 0x0002, dcid, scid), ident)
        elif code == 0x07:
            dcid, scid = struct.unpack_from('<HH', data, 0)
            end = self.ends.pop((handle, scid), None)
            if end is not None:
                end.open = False
                end.closed = True
                self.by_dcid.pop((handle, end.dcid), None)
        elif code == 0x01:
            self.rejects.append(('command-reject', data.hex()))

    def _bind(self, end: CocEnd) -> None:
        self.by_dcid[(end.handle, end.dcid)] = end
        self.raw.handlers[end.scid] = lambda handle, payload, scid=end.scid: self._on_data(handle, scid, payload)

    def _on_data(self, handle, scid, payload) -> None:
        end = self.ends.get((handle, scid))
        if end is not None and end.open:
            end.on_frame(payload)

    # ---- initiator side
    def connect(self, handle, psm) -> CocEnd:
        end = self.new_end(handle)
        ident = self.sig(handle, 0x14, struct.pack('<HHHHH', psm, end.scid, end.mtu, end.mps, end.initial))
        self.pending[ident] = [end]
        return end

    def connect_enhanced(self, handle, psm, count) -> list:
        ends = [self.new_end(handle) for _ in range(count)]
        ident = self.sig(handle, 0x17, struct.pack('<HHHH', psm, self.mtu, self.mps, self.credits) + b''.join(struct.pack('<H', e.scid) for e in ends))
        self.pending[ident] = ends
        return ends

    def disconnect(self, end: CocEnd) -> None:
        self.sig(end.handle, 0x06, struct.pack('<HH', end.dcid, end.scid))
