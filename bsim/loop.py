"""DetLoop: a deterministic, virtual-time asyncio event loop.

* time() is a virtual clock that only moves when nothing is runnable (jump to next timer)
* call_soon order is FIFO (asyncio's own guarantee, bumble relies on it)
* a second, totally ordered queue (`sim_at`) carries simulator events (message deliveries,
  fault triggers); "quiescence" = nothing ready and nothing in that queue
* drive(until, ...) replaces run_forever: it returns a verdict instead of blocking when the
  system is dead-locked ('deadlock'), exceeds a virtual-time budget ('timeout') or a step
  budget ('livelock')
* real I/O, executors and thread-safe wake-ups are forbidden (raise)
"""
from __future__ import annotations

import asyncio
import heapq
import threading
from asyncio import base_events, events


class SimulationForbidden(RuntimeError):
    pass


class DetLoop(base_events.BaseEventLoop):
    def __init__(self) -> None:
        super().__init__()
        self._vtime = 0.0
        self._clock_resolution = 1e-9
        self.tick = 1e-6
        self.steps = 0
        self._simq: list = []  # (when, seq, fn, args)
        self._simseq = 0
        self.callback_exceptions: list = []
        self.set_exception_handler(self._on_exception)
        self.server_factories: list = []  # (kind, protocol_factory, args)

    # ------------------------------------------------------------------ clock
    def time(self) -> float:
        return self._vtime

    # ------------------------------------------------------------------ sim queue
    def sim_at(self, when: float, fn, *args) -> None:
        self._simseq += 1
        heapq.heappush(self._simq, (max(when, self._vtime), self._simseq, fn, args))

    def sim_after(self, delay: float, fn, *args) -> None:
        self.sim_at(self._vtime + delay, fn, *args)

    @property
    def sim_inflight(self) -> int:
        return len(self._simq)

    # ------------------------------------------------------------------ plumbing
    def _on_exception(self, loop, context) -> None:
        exc = context.get('exception')
        self.callback_exceptions.append(
            (self._vtime, context.get('message', ''), type(exc).__name__ if exc else None, str(exc)[:200] if exc else '')
        )

    def _process_events(self, event_list) -> None:  # pragma: no cover
        pass

    def _write_to_self(self) -> None:
        pass

    def call_soon_threadsafe(self, callback, *args, context=None):
        raise SimulationForbidden('call_soon_threadsafe in simulation')

    def run_in_executor(self, executor, func, *args):
        raise SimulationForbidden('run_in_executor in simulation')

    def _forbid(self, *a, **k):
        raise SimulationForbidden('real I/O in simulation')

    sock_recv = sock_sendall = sock_connect = sock_accept = _forbid
    create_connection = create_datagram_endpoint = connect_read_pipe = connect_write_pipe = _forbid
    subprocess_exec = subprocess_shell = _forbid
    getaddrinfo = getnameinfo = _forbid
    _make_socket_transport = _make_ssl_transport = _make_datagram_transport = _forbid
    add_reader = add_writer = remove_reader = remove_writer = _forbid

    async def create_server(self, protocol_factory, *args, **kwargs):
        self.server_factories.append(('tcp', protocol_factory, args, kwargs))
        return _FakeServer()

    async def create_unix_server(self, protocol_factory, *args, **kwargs):
        self.server_factories.append(('unix', protocol_factory, args, kwargs))
        return _FakeServer()

    # ------------------------------------------------------------------ core
    def _next_when(self):
        sched = self._scheduled
        while sched and sched[0]._cancelled:
            self._timer_cancelled_count -= 1
            h = heapq.heappop(sched)
            h._scheduled = False
        t = sched[0]._when if sched else None
        if self._simq:
            s = self._simq[0][0]
            if t is None or s < t:
                t = s
        return t

    def _run_once(self) -> None:
        nxt = self._next_when()
        if not self._ready and nxt is not None and nxt > self._vtime:
            self._vtime = nxt
        elif self._ready:
            # executing callbacks takes time: without this a zero-delay periodic timer would
            # freeze the virtual clock for ever
            self._vtime += self.tick
        end_time = self._vtime + self._clock_resolution
        sched = self._scheduled
        while sched:
            handle = sched[0]
            if handle._when >= end_time:
                break
            handle = heapq.heappop(sched)
            handle._scheduled = False
            if handle._cancelled:
                self._timer_cancelled_count -= 1
                continue
            self._ready.append(handle)
        simq = self._simq
        while simq and simq[0][0] < end_time:
            _, _, fn, args = heapq.heappop(simq)
            self._ready.append(events.Handle(fn, args, self))
        ntodo = len(self._ready)
        for _ in range(ntodo):
            handle = self._ready.popleft()
            if handle._cancelled:
                continue
            self.steps += 1
            handle._run()
        handle = None

    def drive(self, until, vt_budget: float = 120.0, step_budget: int = 200_000) -> str:
        """Run until `until()` is true. Returns 'done' | 'deadlock' | 'timeout' | 'livelock'."""
        self._check_closed()
        if events._get_running_loop() is not None:
            raise RuntimeError('drive() re-entered')
        self._thread_id = threading.get_ident()
        events._set_running_loop(self)
        deadline = self._vtime + vt_budget
        steps0 = self.steps
        try:
            while True:
                if until():
                    return 'done'
                if not self._ready:
                    nxt = self._next_when()
                    if nxt is None:
                        return 'deadlock'
                    if nxt > deadline:
                        self._vtime = deadline
                        return 'timeout'
                if self.steps - steps0 > step_budget:
                    return 'livelock'
                self._run_once()
        finally:
            self._thread_id = None
            events._set_running_loop(None)

    # conveniences --------------------------------------------------------
    def quiescent(self) -> bool:
        return not self._ready and not self._simq

    def settle(self, vt_budget: float = 120.0, step_budget: int = 200_000) -> str:
        """Run until nothing is runnable at the current instant and no simulator event is in
        flight (bumble's own timers are left pending)."""

        def until() -> bool:
            if self._ready or self._simq:
                return False
            # timers that are already due count as runnable
            nxt = self._next_when()
            return nxt is None or nxt > self._vtime

        r = self.drive(until, vt_budget, step_budget)
        return 'done' if r == 'deadlock' else r

    def advance(self, dt: float, step_budget: int = 400_000) -> str:
        """Let virtual time pass by dt (running whatever becomes due)."""
        target = self._vtime + dt
        r = self.drive(lambda: False, dt, step_budget)
        if r in ('timeout', 'deadlock'):
            self._vtime = max(self._vtime, target)
            return 'done'
        return r

    def run_task(self, coro, vt_budget: float = 120.0, step_budget: int = 200_000):
        """Run a coroutine to completion. Returns (status, task)."""
        task = self.create_task(coro)
        status = self.drive(task.done, vt_budget, step_budget)
        return status, task

    def shutdown(self) -> None:
        """Cancel everything and close (no exceptions escape)."""
        try:
            tasks = [t for t in asyncio.all_tasks(self) if not t.done()]
            for t in tasks:
                t.cancel()
            self._simq.clear()
            if tasks:
                self.drive(lambda: all(t.done() for t in tasks), 1.0, 50_000)
        except BaseException:
            pass
        try:
            self._ready.clear()
            self._scheduled.clear()
            self.close()
        except BaseException:
            pass


class _FakeServer:
    def close(self) -> None:
        pass

    async def wait_closed(self) -> None:
        pass

    def get_loop(self):
        return asyncio.get_event_loop()

    sockets: list = []


def new_loop() -> DetLoop:
    loop = DetLoop()
    asyncio.set_event_loop(loop)
    return loop
