"""Generate well-formed HCI command parameter bytes with arbitrary in-range values, from the
class's own field specs (the controller then parses them with bumble's own code)."""
from __future__ import annotations

_WIDTH_CACHE: dict = {}


def _int_boundaries(nbytes: int, rng):
    mx = (1 << (8 * nbytes)) - 1
    c = [0, 1, 2, mx, mx - 1, 1 << (8 * nbytes - 1), rng.randrange(mx + 1), rng.randrange(mx + 1), rng.randrange(min(mx, 16) + 1)]
    return rng.choice(c)


def _rand_bytes(rng, n: int) -> bytes:
    r = rng.random()
    if r < 0.15:
        return bytes(n)
    if r < 0.3:
        return b'\xff' * n
    return bytes(rng.getrandbits(8) for _ in range(n))


def _gen_field(spec, rng, hints: dict, name: str = '') -> bytes:
    from bumble import hci

    serializer = None
    if isinstance(spec, dict):
        if 'size' in spec:
            spec = spec['size']
        elif 'parser' in spec:
            spec = spec['parser']
    if spec == '*':
        return _rand_bytes(rng, rng.choice([0, 0, 1, 2, 8, 31, 32, 200]))
    if spec == 'v':
        n = rng.choice([0, 1, 2, 31, 32, 64, 200])
        return bytes([n]) + _rand_bytes(rng, n)
    if spec in (1, -1):
        if 'handle' in name and hints.get('handles') and rng.random() < 0.5:
            return bytes([rng.choice(hints['handles']) & 0xFF])
        return _int_boundaries(1, rng).to_bytes(1, 'little')
    if spec in (2, -2, '>2'):
        if 'handle' in name and hints.get('handles') and rng.random() < 0.6:
            v = rng.choice(hints['handles'])
        else:
            v = _int_boundaries(2, rng)
        return v.to_bytes(2, 'big' if spec == '>2' else 'little')
    if spec == 3:
        return _int_boundaries(3, rng).to_bytes(3, 'little')
    if spec in (4, '>4'):
        return _int_boundaries(4, rng).to_bytes(4, 'big' if spec == '>4' else 'little')
    if isinstance(spec, int) and 4 < spec <= 256:
        return _rand_bytes(rng, spec)
    if callable(spec):
        # learn the width by running the parser on a long buffer; retry until the value is accepted
        if spec is hci.Address.parse_address or getattr(spec, '__func__', None) is getattr(hci.Address.parse_address, '__func__', object()):
            if hints.get('addresses') and rng.random() < 0.6:
                return rng.choice(hints['addresses'])
            return _rand_bytes(rng, 6)
        last_exc = None
        for attempt in range(40):
            if attempt < 24:
                buf = bytes([rng.randrange(0, 1 + min(255, attempt * 2))]) + bytes(63) if attempt < 8 else \
                    rng.randrange(0, 1 << 16).to_bytes(2, 'little') + _rand_bytes(rng, 62)
            else:
                buf = _rand_bytes(rng, 64)
            try:
                new_offset, _ = spec(buf, 0)
                return buf[:new_offset]
            except Exception as e:  # value not in range for this field
                last_exc = e
        raise ValueError(f'no acceptable value found for field {name}: {last_exc}')
    raise ValueError(f'unknown field spec {spec!r}')


def gen_params(cls, rng, hints: dict | None = None) -> bytes:
    """Parameter bytes for command class `cls` that cls.from_parameters accepts."""
    hints = hints or {}
    custom = _CUSTOM.get(cls.__name__)
    if custom is not None:
        return custom(rng, hints)
    for _ in range(30):
        out = bytearray()
        star_seen = False
        for f in cls.fields:
            if isinstance(f, list):
                count = rng.choice([0, 1, 1, 2, 3])
                out.append(count)
                for _i in range(count):
                    for (name, spec) in f:
                        out += _gen_field(spec, rng, hints, name)
                continue
            name, spec = f
            out += _gen_field(spec, rng, hints, name)
        if len(out) > 255:
            continue
        try:
            cls.from_parameters(bytes(out))
        except Exception:
            continue
        return bytes(out)
    raise ValueError(f'could not generate parameters for {cls.__name__}')


def _ext_create_connection(rng, hints) -> bytes:
    phys = rng.choice([0, 1, 1, 2, 3, 4, 5, 7])
    addr = rng.choice(hints['addresses']) if hints.get('addresses') and rng.random() < 0.6 else _rand_bytes(rng, 6)
    out = bytes([rng.randrange(2), rng.randrange(4), rng.randrange(4)]) + addr + bytes([phys])
    for _ in range(bin(phys).count('1')):
        out += b''.join(_int_boundaries(2, rng).to_bytes(2, 'little') for _ in range(8))
    return out


def _ext_scan_parameters(rng, hints) -> bytes:
    phys = rng.choice([0, 1, 1, 4, 5, 7])
    out = bytes([rng.randrange(4), rng.randrange(4), phys])
    for _ in range(bin(phys).count('1')):
        out += bytes([rng.randrange(2)]) + _int_boundaries(2, rng).to_bytes(2, 'little') + _int_boundaries(2, rng).to_bytes(2, 'little')
    return out


_CUSTOM = {
    'HCI_LE_Extended_Create_Connection_Command': _ext_create_connection,
    'HCI_LE_Set_Extended_Scan_Parameters_Command': _ext_scan_parameters,
}
