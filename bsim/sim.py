"""Sim: one simulated execution (loop + trace + delays + patches); World: n full bumble stacks."""
from __future__ import annotations

import asyncio
import collections
import hashlib
import logging
import random as _random
import secrets as _secrets
from typing import Callable

from . import rng as _rng
from .loop import DetLoop, new_loop

logging.disable(logging.CRITICAL)

PROFILES = {
    # name: (max delay seconds on HCI channels, max delay on link channels)
    'zero': (0.0, 0.0),
    'lan': (0.002, 0.002),
    'radio': (0.002, 0.020),
    'slow': (0.050, 0.150),
    # HCI transports are byte streams: packets that arrive close together are handed to the receiver in ONE read, i.e. processed
    # back to back in one event-loop callback, before any task they wake up gets to run (PacketParser.feed_data loops over the chunk)
    'burst': (0.002, 0.002),
    'burst-radio': (0.002, 0.020),
}
BURST_WINDOW = {'burst': 0.003, 'burst-radio': 0.010}  # seconds during which HCI packets are coalesced into one delivery
PROFILE_NAMES = ['zero', 'lan', 'radio', 'slow', 'skewed', 'burst', 'burst-radio']


class Trace:
    def __init__(self, keep: int = 300) -> None:
        self._h = hashlib.sha256()
        self._shape = hashlib.sha256()
        self.n = 0
        self.tail: collections.deque = collections.deque(maxlen=keep)
        self.full: list | None = None

    def ev(self, vt: float, kind: str, *fields) -> None:
        self.n += 1
        rec = (self.n, round(vt, 9), kind) + fields
        self._h.update(repr(rec).encode())
        self.tail.append(rec)
        if self.full is not None:
            self.full.append(rec)

    def shape(self, *fields) -> None:
        self._shape.update(repr(fields).encode())

    @property
    def digest(self) -> str:
        return self._h.hexdigest()[:32]

    @property
    def shape_digest(self) -> str:
        return self._shape.hexdigest()[:16]


class Sim:
    """Everything one run needs. Create, use, then close()."""

    def __init__(self, seed: int, profile: str = 'zero', slow_node: str | None = None,
                 delay_seed: int | None = None, keep_trace: bool = False) -> None:
        self.seed = seed
        self.loop: DetLoop = new_loop()
        self.trace = Trace()
        if keep_trace:
            self.trace.full = []
        self.profile = profile
        self.slow_node = slow_node
        self.delay_seed = delay_seed if delay_seed is not None else _rng.sub_seed(seed, 'delays')
        self.probes: collections.Counter = collections.Counter()
        self.faults_fired: collections.Counter = collections.Counter()
        self.violations: list[tuple[str, str]] = []  # (signature, message)
        self._sigs: set[str] = set()
        self._classes: set[str] = set()
        self.monitors: list[Callable] = []  # fn(chan_name, direction, data)
        self.delivery_exceptions: list[tuple[str, str, str]] = []
        self._patches: list = []
        self._install_patches()

    # ------------------------------------------------------------ verdicts
    def violation(self, signature: str, message: str = '') -> None:
        if signature not in self._sigs:
            self._sigs.add(signature)
            self.violations.append((signature, message[:600]))
        self.trace.ev(self.loop.time(), 'VIOLATION', signature)

    def violation_once(self, cls: str, signature: str, message: str = '') -> None:
        """Report only the first violation of a class in this run (later ones are consequences)."""
        if cls in self._classes:
            return
        self._classes.add(cls)
        self.violation(signature, message)

    def probe(self, name: str, n: int = 1) -> None:
        self.probes[name] += n

    def fault(self, kind: str) -> None:
        self.faults_fired[kind] += 1
        self.trace.ev(self.loop.time(), 'fault', kind)

    # ------------------------------------------------------------ delays
    def delay(self, channel: str, kind: str, n: int, node: str | None = None) -> float:
        prof = self.profile
        if prof == 'zero':
            return 0.0
        if prof == 'skewed':
            hci_max, link_max = PROFILES['lan']
            if node is not None and node == self.slow_node:
                hci_max, link_max = hci_max * 10, link_max * 10
        else:
            hci_max, link_max = PROFILES[prof]
        mx = hci_max if kind == 'hci' else link_max
        u = _rng.hash_unit(self.delay_seed, channel, n)
        # a third of the messages go "next tick" so that zero-latency races stay in the mix
        if u < 0.33:
            return 0.0
        return round(mx * (u - 0.33) / 0.67, 6)

    # ------------------------------------------------------------ taps
    def tap(self, chan: str, direction: str, data) -> None:
        self.trace.ev(self.loop.time(), 'tap', chan, direction, data if isinstance(data, (bytes, str)) else repr(data))
        for m in self.monitors:
            m(chan, direction, data)

    # ------------------------------------------------------------ patches
    def _patch(self, obj, name, value) -> None:
        self._patches.append((obj, name, getattr(obj, name)))
        setattr(obj, name, value)

    def _install_patches(self) -> None:
        ss = _rng.SeededSecrets(self.seed)
        self.secrets = ss
        self._patch(_secrets, 'token_bytes', ss.token_bytes)
        self._patch(_secrets, 'randbelow', ss.randbelow)
        _random.seed(_rng.sub_seed(self.seed, 'random-module'))
        try:
            from bumble import crypto

            ecc = crypto.EccKey
            orig = ecc.__dict__['generate']

            def generate(cls):
                while True:
                    d = ss.token_bytes(32)
                    if 0 < int.from_bytes(d, 'big') < 0xFFFFFFFF00000000FFFFFFFFFFFFFFFFBCE6FAADA7179E84F3B9CAC2FC632551:
                        return cls.from_private_key_bytes(d)

            self._patches.append((ecc, 'generate', orig))
            ecc.generate = classmethod(generate)
        except Exception:  # pragma: no cover
            pass
        # process-global state in bumble that survives between runs in a warm worker
        try:
            from bumble import utils

            ar = utils.AsyncRunner
            dq = getattr(ar, 'default_queue', None)
            if dq is not None:
                dq.queue = None
                dq.task = None
            if hasattr(ar, 'running_tasks'):
                ar.running_tasks.clear()
        except Exception:  # pragma: no cover
            pass

    def close(self) -> None:
        for obj, name, value in reversed(self._patches):
            try:
                setattr(obj, name, value)
            except Exception:
                pass
        self._patches.clear()
        self.loop.shutdown()
        asyncio.set_event_loop(None)

    # ------------------------------------------------------------ helpers
    def run(self, coro, vt_budget: float = 120.0, step_budget: int = 200_000):
        return self.loop.run_task(coro, vt_budget, step_budget)

    def call(self, fn, *args):
        """Call a synchronous bumble API from inside the running loop (as an application callback would)."""
        box: dict = {}

        def runner():
            try:
                box['r'] = fn(*args)
            except Exception as e:  # handed back to the caller
                box['e'] = e

        self.loop.call_soon(runner)
        self.loop.drive(lambda: bool(box), 1.0)
        if 'e' in box:
            raise box['e']
        return box.get('r')

    def must(self, coro, what: str = 'setup', vt_budget: float = 120.0):
        """Run a harness-side coroutine that has to succeed; otherwise HarnessError."""
        status, task = self.loop.run_task(coro, vt_budget)
        if status != 'done':
            task.cancel()
            raise HarnessError(f'{what}: {status}; pending: {describe_task(task)}')
        if task.cancelled():
            raise HarnessError(f'{what}: cancelled')
        exc = task.exception()
        if exc is not None:
            raise HarnessError(f'{what}: {type(exc).__name__}: {exc}') from exc
        return task.result()


class HarnessError(Exception):
    """The harness could not set up or drive the scenario (never a violation)."""


def describe_task(task: asyncio.Task) -> str:
    """Where a pending task is parked: chain of coroutine function names (innermost last)."""
    names = []
    coro = task.get_coro()
    seen = 0
    while coro is not None and seen < 30:
        seen += 1
        code = getattr(coro, 'cr_code', None) or getattr(coro, 'gi_code', None)
        if code is not None:
            fn = code.co_filename.rsplit('/', 1)[-1]
            names.append(f'{fn}:{code.co_name}')
        nxt = getattr(coro, 'cr_await', None)
        if nxt is None:
            nxt = getattr(coro, 'gi_yieldfrom', None)
        coro = nxt
    return '>'.join(names)


def innermost_bumble_frame(task: asyncio.Task) -> str:
    """The innermost frame of a pending task that lives in bumble (stable across seeds)."""
    last = 'unknown'
    coro = task.get_coro()
    seen = 0
    while coro is not None and seen < 40:
        seen += 1
        code = getattr(coro, 'cr_code', None) or getattr(coro, 'gi_code', None)
        if code is not None and '/bumble/' in code.co_filename:
            last = f'{code.co_filename.rsplit("/", 1)[-1]}:{code.co_name}'
        nxt = getattr(coro, 'cr_await', None)
        if nxt is None:
            nxt = getattr(coro, 'gi_yieldfrom', None)
        coro = nxt
    return last


# =====================================================================================
class SimChannel:
    """Order-preserving FIFO with seeded latency; optional transform and injection."""

    def __init__(self, sim: Sim, name: str, kind: str, node: str | None, deliver: Callable,
                 inline_when_zero: bool = False) -> None:
        self.sim = sim
        self.name = name
        self.kind = kind
        self.node = node
        self.deliver = deliver
        self.inline_when_zero = inline_when_zero
        self.count = 0
        self.last = 0.0
        self.inflight = 0
        self.transform: Callable | None = None  # item -> list[item]
        self.on_delivered: Callable | None = None  # fn(item) after delivery (fault triggers)
        self.closed = False
        self.delivered = 0
        self.burst = BURST_WINDOW.get(sim.profile, 0.0) if kind == 'hci' else 0.0
        self._batch: list | None = None
        self._batch_time = 0.0
        self._stall_until = -1.0
        self._stalled: list = []

    def send(self, item) -> None:
        if self.closed:
            return
        self.sim.tap(self.name, 'tx', item if isinstance(item, bytes) else item[0])
        items = [item] if self.transform is None else self.transform(item)
        for it in items:
            self._send1(it)

    def inject(self, item) -> None:
        """Put an item into the FIFO that the sender never sent (fault injection)."""
        if not self.closed:
            self._send1(item)

    def _send1(self, item) -> None:
        sim = self.sim
        n = self.count
        self.count += 1
        now = sim.loop.time()
        d = sim.delay(self.name, self.kind, n, self.node)
        t = max(self.last, now + d)
        if now < self._stall_until:
            # the receiver is not reading: everything piles up and is read in one go when it resumes
            self.inflight += 1
            self._stalled.append(item)
            return
        if self.burst:
            # coalesce: everything that would arrive before the open batch is flushed joins it; order is preserved
            self.inflight += 1
            if self._batch is not None and t <= self._batch_time:
                self._batch.append(item)
                return
            self._batch = [item]
            self._batch_time = t + self.burst
            self.last = self._batch_time
            sim.loop.sim_at(self._batch_time, self._flush, self._batch)
            return
        self.last = t
        if self.inline_when_zero and t <= now and self.inflight == 0:
            self._deliver(item, False)
        else:
            self.inflight += 1
            sim.loop.sim_at(t, self._deliver, item, True)

    def stall(self, duration: float) -> None:
        """Fault: the receiver stops reading for `duration` seconds; what is sent meanwhile is delivered in ONE burst afterwards."""
        now = self.sim.loop.time()
        until = max(now + duration, self.last)
        if until <= self._stall_until:
            return
        self._stall_until = until
        self.last = until
        self.sim.loop.sim_at(until, self._release, until)

    def _release(self, until: float) -> None:
        if until != self._stall_until:
            return
        items, self._stalled = self._stalled, []
        if len(items) > 1:
            self.sim.probes['hci_packets_delivered_in_one_burst'] += len(items)
        for item in items:
            self._deliver(item, True)

    def _flush(self, batch: list) -> None:
        if batch is self._batch:
            self._batch = None
        if len(batch) > 1:
            self.sim.probes['hci_packets_delivered_in_one_burst'] += len(batch)
        for item in batch:
            self._deliver(item, True)

    def _deliver(self, item, queued: bool) -> None:
        if queued:
            self.inflight -= 1
        if self.closed:
            return
        self.delivered += 1
        self.sim.tap(self.name, 'rx', item if isinstance(item, bytes) else item[0])
        try:
            self.deliver(item)
        except Exception as e:  # what the event loop would do: log and carry on
            self.sim.delivery_exceptions.append((self.name, type(e).__name__, str(e)[:200]))
            self.sim.trace.ev(self.sim.loop.time(), 'exc', self.name, type(e).__name__)
        finally:
            if self.on_delivered is not None:
                self.on_delivered(item)


class _Sink:
    def __init__(self, chan: SimChannel) -> None:
        self.chan = chan
        self.lost = False

    def on_packet(self, packet: bytes) -> None:
        self.chan.send(bytes(packet))


class OrderedSet:
    """Insertion-ordered stand-in for LocalLink.controllers (a set hashed by id)."""

    def __init__(self) -> None:
        self._items: list = []

    def add(self, x) -> None:
        if x not in self._items:
            self._items.append(x)

    def remove(self, x) -> None:
        self._items.remove(x)

    def discard(self, x) -> None:
        if x in self._items:
            self._items.remove(x)

    def __iter__(self):
        return iter(list(self._items))

    def __len__(self) -> int:
        return len(self._items)

    def __contains__(self, x) -> bool:
        return x in self._items


class Node:
    def __init__(self, world: 'World', index: int, name: str, controller, host, device) -> None:
        self.world = world
        self.index = index
        self.name = name
        self.controller = controller
        self.host = host
        self.device = device
        self.h2c: SimChannel = None  # type: ignore
        self.c2h: SimChannel = None  # type: ignore
        self.link_in: SimChannel = None  # type: ignore


class World:
    """n real Device+Host+Controller triples on one real LocalLink, wired through SimChannels."""

    def __init__(self, sim: Sim, n: int, *, controller_attrs: list[dict] | None = None,
                 device_configs: list | None = None, classic: bool = False,
                 link_order: list[int] | None = None) -> None:
        from bumble.controller import Controller
        from bumble.device import Device, DeviceConfiguration
        from bumble.hci import Address
        from bumble.host import Host
        from bumble.link import LocalLink
        from bumble import hci

        self.sim = sim
        self.link = LocalLink()
        self.link.controllers = OrderedSet()  # type: ignore
        self.nodes: list[Node] = []
        loop = sim.loop

        async def build():
            order = link_order or list(range(n))
            ctrls = {}
            for i in range(n):
                pub = ':'.join([f'A{i}'] * 6)
                c = Controller(f'C{i}', link=None, public_address=pub)
                c.link = self.link
                ctrls[i] = c
                for k, v in ((controller_attrs or [{}] * n)[i] or {}).items():
                    setattr(c, k, v)
                if classic:
                    c.lmp_features = hci.LmpFeatureMask(
                        int(c.lmp_features) & ~int(hci.LmpFeatureMask.BR_EDR_NOT_SUPPORTED))
            for i in order:
                self.link.add_controller(ctrls[i])
            for i in range(n):
                c = ctrls[i]
                name = f'N{i}'
                cfg = (device_configs[i] if device_configs else None) or DeviceConfiguration()
                rnd = ':'.join([f'F{i}'] * 6)
                cfg.address = Address(rnd)
                if classic:
                    cfg.classic_enabled = True
                host = Host()
                node = Node(self, i, name, c, host, None)
                node.h2c = SimChannel(sim, f'{name}.h2c', 'hci', name, c.on_packet)
                node.c2h = SimChannel(sim, f'{name}.c2h', 'hci', name, host.on_packet, inline_when_zero=True)
                host.set_packet_sink(_Sink(node.h2c))
                c.set_packet_sink(_Sink(node.c2h))
                device = Device(config=cfg, host=host)
                node.device = device
                node.link_in = SimChannel(sim, f'{name}.air', 'link', name, lambda item: item[1](*item[2]))
                self._wrap_link_entry(node)
                self.nodes.append(node)

        sim.must(build(), 'world build')

    def _wrap_link_entry(self, node: Node) -> None:
        c = node.controller
        for meth in ('on_link_acl_data', 'on_ll_advertising_pdu', 'on_ll_control_pdu', 'on_lmp_packet'):
            real = getattr(c, meth)

            def make(meth=meth, real=real):
                def wrapped(*args):
                    desc = f'{meth}:' + ','.join(_short(a) for a in args)
                    node.link_in.send((desc, real, args))

                return wrapped

            setattr(c, meth, make())

    def __getitem__(self, i: int) -> Node:
        return self.nodes[i]

    def power_on(self) -> None:
        async def go():
            for nd in self.nodes:
                await nd.device.power_on()

        self.sim.must(go(), 'power_on')
        self.sim.loop.settle()

    def connect_le(self, central: int, peripheral: int, own_address_type=None):
        """Harness helper: peripheral advertises (legacy), central connects. Returns (conn_c, conn_p)."""
        from bumble import hci

        cdev = self.nodes[central].device
        pdev = self.nodes[peripheral].device
        got: list = []

        def on_conn(conn):
            got.append(conn)

        pdev.once('connection', on_conn)

        async def go():
            await pdev.start_advertising(advertising_interval_min=1.0, auto_restart=False)
            kwargs = {}
            if own_address_type is not None:
                kwargs['own_address_type'] = own_address_type
            return await cdev.connect(pdev.random_address, **kwargs)

        conn_c = self.sim.must(go(), 'connect_le')
        st = self.sim.loop.drive(lambda: bool(got), 10.0)
        if st != 'done':
            raise HarnessError('peripheral never saw the connection')
        self.sim.loop.settle()
        return conn_c, got[0]


def _short(a) -> str:
    if isinstance(a, (bytes, bytearray)):
        return bytes(a).hex()
    return str(a)


def result(sim: Sim, nontrivial: bool = True, **extra) -> dict:
    """Standard result record of one run."""
    r = {
        'violations': list(sim.violations),
        'probes': dict(sim.probes),
        'faults': dict(sim.faults_fired),
        'digest': sim.trace.digest,
        'shape': sim.trace.shape_digest,
        'vt': sim.loop.time(),
        'steps': sim.loop.steps,
        'nontrivial': nontrivial,
    }
    r.update(extra)
    return r


def enable_extended_advertising(controller, with_create_connection: bool = True) -> None:
    """Configuration swarm: make a virtual controller advertise the extended-advertising feature and commands."""
    from bumble import hci

    controller.le_features = controller.le_features | hci.LeFeatureMask.LE_EXTENDED_ADVERTISING
    cmds = {
        hci.HCI_LE_SET_EXTENDED_ADVERTISING_PARAMETERS_COMMAND, hci.HCI_LE_SET_EXTENDED_ADVERTISING_DATA_COMMAND,
        hci.HCI_LE_SET_EXTENDED_SCAN_RESPONSE_DATA_COMMAND, hci.HCI_LE_SET_EXTENDED_ADVERTISING_ENABLE_COMMAND,
        hci.HCI_LE_SET_ADVERTISING_SET_RANDOM_ADDRESS_COMMAND, hci.HCI_LE_READ_NUMBER_OF_SUPPORTED_ADVERTISING_SETS_COMMAND,
        hci.HCI_LE_READ_MAXIMUM_ADVERTISING_DATA_LENGTH_COMMAND, hci.HCI_LE_REMOVE_ADVERTISING_SET_COMMAND,
        hci.HCI_LE_CLEAR_ADVERTISING_SETS_COMMAND,
    }
    if with_create_connection:
        cmds.add(hci.HCI_LE_EXTENDED_CREATE_CONNECTION_COMMAND)
    controller.supported_commands = set(controller.supported_commands) | cmds
