"""Batch runner: seeded search over cases, shrinking, replay files, known findings, evidence."""
from __future__ import annotations

import argparse
import collections
import concurrent.futures as cf
import faulthandler
import importlib
import json
import multiprocessing
import os
import re
import signal
import subprocess
import sys
import time
import traceback

from . import rng as _rng
from .sim import HarnessError

VERIF = os.path.dirname(os.path.dirname(os.path.abspath(__file__)))
OUT = os.path.join(VERIF, 'out')
REPLAYS = os.path.join(OUT, 'replays')
EVIDENCE = os.path.join(VERIF, 'evidence')
FINDINGS = os.path.join(VERIF, 'known_findings.json')

PROPS = {
    'C02': 'props.c02', 'C03': 'props.c03', 'C04': 'props.c04', 'C05': 'props.c05', 'C06': 'props.c06',
    'C07': 'props.c07', 'C08': 'props.c08', 'C09': 'props.c09', 'C10': 'props.c10', 'C11': 'props.c11',
    'C12': 'props.c12', 'C13': 'props.c13', 'C15': 'props.c15', 'C16': 'props.c16', 'C17': 'props.c17',
    'C19': 'props.c19', 'C20': 'props.c20',
}

RUN_WALL_LIMIT = 120  # seconds of wall time for one simulated run before it is declared stuck


class WallTimeout(BaseException):
    pass


def _alarm(signum, frame):
    raise WallTimeout()


# --------------------------------------------------------------------------------------
def run_case(mod, case: dict) -> dict:
    """Run one case in this process. Never raises: classifies into result['harness_error']."""
    fn = mod.SCENARIOS[case['scenario']][1]
    signal.signal(signal.SIGALRM, _alarm)
    signal.setitimer(signal.ITIMER_REAL, getattr(mod, 'RUN_WALL_LIMIT', RUN_WALL_LIMIT))
    try:
        res = fn(case)
    except WallTimeout:
        handler = getattr(mod, 'on_wall_timeout', None)
        if handler is not None:
            res = handler(case)
        else:
            res = {'violations': [], 'harness_error': 'wall timeout (synchronous busy loop?)'}
    except HarnessError as e:
        res = {'violations': [], 'harness_error': f'HarnessError: {e}'}
    except Exception as e:  # a bug in the harness, never a violation
        res = {'violations': [], 'harness_error': f'{type(e).__name__}: {e}\n{traceback.format_exc(limit=8)}'}
    finally:
        signal.setitimer(signal.ITIMER_REAL, 0)
    res.setdefault('violations', [])
    res.setdefault('harness_error', None)
    return res


def _worker(args):
    modname, tier, batch_seed, scenario, indices, deadline = args
    faulthandler.enable()
    mod = importlib.import_module(modname)
    gen = mod.SCENARIOS[scenario][0]
    agg = {
        'evaluations': 0, 'probes': collections.Counter(), 'faults': collections.Counter(),
        'shapes': {}, 'vt': 0.0, 'steps': 0, 'viol': {}, 'viol_counts': collections.Counter(),
        'harness_errors': [], 'samples': [], 'skipped': 0, 'kf_runs': 0,
    }
    for i in indices:
        if time.time() > deadline:
            agg['skipped'] += 1
            continue
        run_seed = _rng.sub_seed(batch_seed, f'{mod.PROPERTY}/{scenario}/{i}')
        if getattr(gen, 'wants_index', False):
            case = gen(_rng.derive(run_seed, 'gen'), tier, run_seed, i)
        else:
            case = gen(_rng.derive(run_seed, 'gen'), tier, run_seed)
        case['scenario'] = scenario
        case['seed'] = run_seed
        case = normalise(case)
        res = run_case(mod, case)
        agg['evaluations'] += res.get('evaluations', 1) if not res['harness_error'] else 1
        if res['harness_error']:
            if len(agg['harness_errors']) < 3:
                agg['harness_errors'].append((i, run_seed, res['harness_error'], case))
            continue
        agg['probes'].update(res.get('probes', {}))
        agg['faults'].update(res.get('faults', {}))
        agg['vt'] += res.get('vt', 0.0)
        agg['steps'] += res.get('steps', 0)
        if res.get('nontrivial', True) and res.get('shape'):
            agg['shapes'][res['shape']] = max(agg['shapes'].get(res['shape'], 0), res.get('distinct_extra', 1))
        if len(agg['samples']) < 1 and res.get('nontrivial', True):
            agg['samples'].append(case)
        if res['violations']:
            agg['kf_runs'] += 1
        for sig, msg in res['violations']:
            agg['viol_counts'][sig] += 1
            if sig not in agg['viol']:
                agg['viol'][sig] = (i, case, msg, res.get('digest'))
    return agg


# --------------------------------------------------------------------------------------
def load_findings() -> list[dict]:
    try:
        with open(FINDINGS) as f:
            return json.load(f)
    except FileNotFoundError:
        return []


def slug(s: str) -> str:
    return re.sub(r'[^A-Za-z0-9_.-]+', '_', s)[:80]


def shrink(mod, case: dict, sig: str, budget_s: float = 8.0) -> dict:
    """Delta-debug the case while the same signature persists."""
    t0 = time.time()
    cand_fn = getattr(mod, 'shrink_candidates', None)

    def still(c) -> bool:
        r = run_case(mod, c)
        return any(s == sig for s, _ in r['violations'])

    best = case
    progress = True
    while progress and time.time() - t0 < budget_s:
        progress = False
        cands = list(default_candidates(best))
        if cand_fn is not None:
            cands = list(cand_fn(best)) + cands
        for c in cands:
            if time.time() - t0 > budget_s:
                break
            try:
                if still(c):
                    best = c
                    progress = True
                    break
            except Exception:
                continue
    return best


def default_candidates(case: dict):
    """ddmin-style: drop halves, then single elements, of each list named in case['_lists']."""
    for key in case.get('_lists', ['ops', 'faults']):
        lst = case.get(key)
        if not isinstance(lst, list) or not lst:
            continue
        n = len(lst)
        chunk = n // 2
        while chunk >= 1:
            for start in range(0, n, chunk):
                new = lst[:start] + lst[start + chunk:]
                if len(new) < n:
                    c = dict(case)
                    c[key] = new
                    yield c
            chunk //= 2
    if case.get('profile') not in (None, 'zero'):
        c = dict(case)
        c['profile'] = 'zero'
        yield c


def write_replay(prop: str, sig: str, case: dict, msg: str, digest, bumble_rev: str) -> str:
    os.makedirs(REPLAYS, exist_ok=True)
    path = os.path.join(REPLAYS, f'{prop}-{slug(sig)}-{case.get("seed", 0)}.json')
    with open(path, 'w') as f:
        json.dump({'property': prop, 'signature': sig, 'message': msg, 'digest': digest,
                   'bumble_rev': bumble_rev, 'case': case}, f, indent=1, sort_keys=True, default=_jd)
    return path


def _jd(o):
    if isinstance(o, (bytes, bytearray)):
        return {'__bytes__': bytes(o).hex()}
    if isinstance(o, (set, frozenset)):
        return sorted(o)
    if isinstance(o, tuple):
        return list(o)
    return repr(o)


def _unjd(o):
    if isinstance(o, dict):
        if set(o.keys()) == {'__bytes__'}:
            return bytes.fromhex(o['__bytes__'])
        return {k: _unjd(v) for k, v in o.items()}
    if isinstance(o, list):
        return [_unjd(x) for x in o]
    return o


def normalise(case: dict) -> dict:
    """Round-trip through JSON so that what runs is exactly what a replay file would hold."""
    return _unjd(json.loads(json.dumps(case, default=_jd)))


def bumble_rev() -> str:
    src = os.environ.get('BUMBLE_SRC', '/repo')
    try:
        r = subprocess.run(['git', '-C', src, 'describe', '--always', '--dirty'], capture_output=True, text=True, timeout=10)
        return r.stdout.strip() or 'unknown'
    except Exception:
        return 'unknown'


def replay(path: str) -> int:
    with open(path) as f:
        rec = json.load(f)
    prop = rec['property']
    mod = importlib.import_module(PROPS[prop])
    case = _unjd(rec['case'])
    res = run_case(mod, case)
    if res['harness_error']:
        print(f'HARNESS-ERROR replay {path}: {res["harness_error"]}')
        return 2
    sigs = [s for s, _ in res['violations']]
    if rec['signature'] in sigs:
        msg = dict(res['violations'])[rec['signature']]
        if rec.get('digest') and res.get('digest') and rec['digest'] != res['digest']:
            print(f'REPLAY-DIVERGED property={prop} signature={rec["signature"]} digest {res["digest"]} != recorded {rec["digest"]}')
            return 2
        print(f'REPRODUCED property={prop} signature={rec["signature"]} digest={res.get("digest")}')
        print(f'  {msg}')
        print(f'VIOLATION property={prop} replay={path}')
        return 1
    print(f'NOT-REPRODUCED property={prop} signature={rec["signature"]} (now: {sigs})')
    return 0


# --------------------------------------------------------------------------------------
def main(argv=None) -> int:
    ap = argparse.ArgumentParser()
    ap.add_argument('prop', nargs='?')
    ap.add_argument('--tier', default=os.environ.get('VERIF_TIER', 'quick'))
    ap.add_argument('--seed', type=int, default=None)
    ap.add_argument('--replay')
    ap.add_argument('--workers', type=int, default=int(os.environ.get('VERIF_WORKERS', '0')) or (os.cpu_count() or 4))
    ap.add_argument('--scale', type=float, default=float(os.environ.get('VERIF_SCALE', '1.0')))
    ap.add_argument('--scenario', default=None)
    ap.add_argument('--no-evidence', action='store_true')
    ap.add_argument('--no-shrink', action='store_true', help='report violations without minimising them (used when evaluating seeded changes)')
    ap.add_argument('--selfcheck', action='store_true')
    args = ap.parse_args(argv)

    if args.selfcheck:
        from . import selfcheck

        return selfcheck.main()
    if args.replay:
        return replay(args.replay)
    if not args.prop:
        ap.error('property id required')
    if os.environ.get('VERIF_TIER') in ('quick', 'thorough'):
        args.tier = os.environ['VERIF_TIER']
    prop = args.prop.upper()
    seed = args.seed if args.seed is not None else int(os.environ.get('VERIF_SEED', '20260923'))
    mod = importlib.import_module(PROPS[prop])
    plan = mod.PLAN[args.tier]
    wall_cap = mod.WALL_CAP[args.tier] if hasattr(mod, 'WALL_CAP') else (150 if args.tier == 'quick' else 1500)
    t0 = time.time()
    deadline = t0 + wall_cap
    rev = bumble_rev()

    jobs = []
    for scenario, count in plan:
        if args.scenario and scenario != args.scenario:
            continue
        count = max(1, int(count * args.scale))
        nchunks = min(count, args.workers * 4)
        for k in range(nchunks):
            idx = list(range(k, count, nchunks))
            jobs.append((PROPS[prop], args.tier, seed, scenario, idx, deadline))

    total = {
        'evaluations': 0, 'probes': collections.Counter(), 'faults': collections.Counter(), 'shapes': {},
        'vt': 0.0, 'steps': 0, 'viol': {}, 'viol_counts': collections.Counter(), 'harness_errors': [],
        'samples': {}, 'skipped': 0, 'per_scenario': collections.Counter(), 'kf_runs': 0,
    }
    ctx = multiprocessing.get_context('fork')
    broken = None
    with cf.ProcessPoolExecutor(max_workers=args.workers, mp_context=ctx) as ex:
        futs = {ex.submit(_worker, j): j for j in jobs}
        try:
            for fut in cf.as_completed(futs, timeout=wall_cap + 600):
                j = futs[fut]
                agg = fut.result()
                total['evaluations'] += agg['evaluations']
                total['per_scenario'][j[3]] += agg['evaluations']
                total['probes'].update(agg['probes'])
                total['faults'].update(agg['faults'])
                for s_, w_ in agg['shapes'].items():
                    k_ = f'{j[3]}:{s_}'
                    total['shapes'][k_] = max(total['shapes'].get(k_, 0), w_)
                total['vt'] += agg['vt']
                total['steps'] += agg['steps']
                total['skipped'] += agg['skipped']
                total['kf_runs'] += agg['kf_runs']
                total['viol_counts'].update(agg['viol_counts'])
                total['harness_errors'].extend(agg['harness_errors'])
                for s in agg['samples']:
                    total['samples'].setdefault(j[3], s)
                for sig, (i, case, msg, digest) in agg['viol'].items():
                    cur = total['viol'].get(sig)
                    if cur is None or (case['scenario'], i) < (cur[1]['scenario'], cur[0]):
                        total['viol'][sig] = (i, case, msg, digest)
        except Exception as e:  # broken pool, timeout
            broken = f'{type(e).__name__}: {e}'

    findings = load_findings()
    open_sigs = {f['signature']: f for f in findings if f['property'] == prop and f.get('status') == 'open'}
    exit_code = 0
    new_violations = 0
    lines = []
    for sig in sorted(total['viol']):
        i, case, msg, digest = total['viol'][sig]
        if sig in open_sigs:
            path = write_replay(prop, sig, normalise(case), msg, digest, rev)
            lines.append(f'KNOWN-FINDING: property={prop} {sig} :: {open_sigs[sig].get("what", "")} (runs={total["viol_counts"][sig]}, replay={path})')
            continue
        new_violations += 1
        small = normalise(case) if args.no_shrink else shrink(mod, normalise(case), sig)
        r = run_case(mod, small)
        msg2 = dict(r['violations']).get(sig, msg)
        path = write_replay(prop, sig, small, msg2, r.get('digest'), rev)
        lines.append(f'  signature={sig} runs={total["viol_counts"][sig]} :: {msg2}')
        lines.append(f'VIOLATION property={prop} replay={path}')
        exit_code = 1
    for ln in lines:
        print(ln)

    harness_bad = bool(total['harness_errors']) or broken is not None
    if harness_bad:
        for (i, run_seed, err, case) in total['harness_errors'][:5]:
            print(f'HARNESS-ERROR property={prop} scenario={case.get("scenario")} seed={run_seed}: {err}')
        if broken:
            print(f'HARNESS-ERROR property={prop} pool: {broken}')
        if exit_code == 0:
            exit_code = 2

    wall = time.time() - t0
    if not args.no_evidence and not harness_bad:
        write_evidence(mod, prop, args.tier, seed, total, wall, new_violations, rev, open_sigs)
    print(f'{prop} tier={args.tier} seed={seed} runs={total["evaluations"]} skipped={total["skipped"]} '
          f'distinct={sum(total["shapes"].values())} sim_s={total["vt"]:.0f} wall={wall:.1f}s '
          f'known={sum(1 for s in total["viol"] if s in open_sigs)} new={new_violations} exit={exit_code}')
    return exit_code


def write_evidence(mod, prop, tier, seed, total, wall, new_violations, rev, open_sigs) -> None:
    os.makedirs(EVIDENCE, exist_ok=True)
    info = mod.EVIDENCE
    samples = [json.loads(json.dumps(_trim(c), default=_jd)) for _, c in sorted(total['samples'].items())]
    cov = {
        'evaluations': total['evaluations'],
        'distinct_nontrivial': sum(total['shapes'].values()),
        'rule': info['rule'],
        'samples': samples[:4] or [{'note': 'no sample'}],
        'runs_per_scenario': dict(total['per_scenario']),
        'runs_per_hour': int(total['evaluations'] / max(wall, 1e-6) * 3600),
        'simulated_seconds': round(total['vt'], 3),
        'loop_steps': total['steps'],
        'faults_fired': dict(total['faults']),
        'probes': dict(total['probes']),
        'known_finding_runs': total['kf_runs'],
        'known_findings_seen': sorted(s for s in total['viol'] if s in open_sigs),
        'runs_skipped_by_wall_cap': total['skipped'],
        'real_components': info.get('real', []),
        'stub_components': info.get('stub', []),
        'bumble_rev': rev,
        'workers': os.cpu_count(),
    }
    if info.get('exhaustive'):
        cov['exhaustive'] = True
        cov['exhaustive_scope'] = info['exhaustive']
    ev = {
        'property_id': prop, 'tier': tier, 'seed': seed, 'level': info['level'], 'coverage': cov,
        'assumptions': info.get('assumptions', []), 'wall_s': round(wall, 2), 'violations': new_violations,
    }
    with open(os.path.join(EVIDENCE, f'{prop}.json'), 'w') as f:
        json.dump(ev, f, indent=1, sort_keys=True)


def _trim(o, depth=0):
    if isinstance(o, (bytes, bytearray)):
        b = bytes(o)
        return b.hex() if len(b) <= 48 else f'{b[:24].hex()}..({len(b)} bytes)'
    if isinstance(o, dict):
        return {k: _trim(v, depth + 1) for k, v in o.items()}
    if isinstance(o, (list, tuple)):
        if len(o) > 40:
            return [_trim(x, depth + 1) for x in o[:40]] + [f'..({len(o)} items)']
        return [_trim(x, depth + 1) for x in o]
    return o
