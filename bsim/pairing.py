"""Pairing harness: scripted delegates (answers from the case, each with a seeded delay) and helpers."""
from __future__ import annotations

import asyncio

IO_NAMES = ['DISPLAY_OUTPUT_ONLY', 'DISPLAY_OUTPUT_AND_YES_NO_INPUT', 'KEYBOARD_INPUT_ONLY', 'NO_OUTPUT_NO_INPUT', 'DISPLAY_OUTPUT_AND_KEYBOARD_INPUT']


def make_delegate(sim, io: int, answers: dict, log: list, shared: dict, who: str, init_dist: int = 0x0F, resp_dist: int = 0x0F):
    """answers: accept(bool), confirm(bool), compare(bool), passkey('right'|'wrong'|'none'), delay(float)."""
    from bumble.pairing import PairingDelegate

    class Delegate(PairingDelegate):
        async def _wait(self):
            d = answers.get('delay', 0.0)
            if d:
                await asyncio.sleep(d)

        async def accept(self) -> bool:
            log.append((who, 'accept'))
            await self._wait()
            return answers.get('accept', True)

        async def confirm(self, auto: bool = False) -> bool:
            log.append((who, 'confirm'))
            await self._wait()
            return answers.get('confirm', True)

        async def compare_numbers(self, number: int, digits: int) -> bool:
            log.append((who, 'compare', number))
            shared.setdefault('compare', {})[who] = number
            await self._wait()
            return answers.get('compare', True)

        async def get_number(self):
            log.append((who, 'get_number'))
            await self._wait()
            # wait until the other side has displayed it (a user reads it from the other device)
            for _ in range(100):
                if 'displayed' in shared:
                    break
                await asyncio.sleep(0.01)
            mode = answers.get('passkey', 'right')
            if mode == 'none':
                return None
            # nobody displays (both sides type a passkey they agreed on): a fixed number, 000000 when the case says so
            n = shared.get('displayed', answers.get('agreed_passkey', 345678))
            if mode == 'wrong':
                n = (n + 1) % 1000000
            return n

        async def display_number(self, number: int, digits: int) -> None:
            log.append((who, 'display', number))
            shared['displayed'] = number

    return Delegate(PairingDelegate.IoCapability(io), local_initiator_key_distribution=PairingDelegate.KeyDistribution(init_dist),
                    local_responder_key_distribution=PairingDelegate.KeyDistribution(resp_dist))


def install(sim, device, who, io, sc, mitm, bonding, answers, log, shared, init_dist=0x0F, resp_dist=0x0F):
    from bumble.pairing import PairingConfig

    delegate = make_delegate(sim, io, answers, log, shared, who, init_dist, resp_dist)
    # identity address = the static random address the devices connect with (so bonded keys are found again by address)
    cfg = PairingConfig(sc=sc, mitm=mitm, bonding=bonding, delegate=delegate, identity_address_type=PairingConfig.AddressType.RANDOM)
    device.pairing_config_factory = lambda connection: cfg
    return cfg
