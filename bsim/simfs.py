"""SimFS: an in-memory file system behind bumble.keys' module-level open / os / pathlib, with the
process-crash model: completed write() calls reach the file only when the user-space buffer is flushed
(buffer full, flush or close); os.replace is atomic; a crash discards open handles with their unflushed
buffers and keeps everything else. Every file-system step is a numbered crash / error point."""
from __future__ import annotations

import errno
import posixpath


class _FileTable:
    """dict-like view path -> bytes over the inode table (what a directory listing + read would show)."""

    def __init__(self, fs) -> None:
        self.fs = fs

    def __contains__(self, path) -> bool:
        return path in self.fs.names

    def __getitem__(self, path) -> bytes:
        return bytes(self.fs.inodes[self.fs.names[path]])

    def get(self, path, default=None):
        return self[path] if path in self else default

    def __setitem__(self, path, data: bytes) -> None:
        ino = self.fs.next_inode
        self.fs.next_inode += 1
        self.fs.inodes[ino] = bytearray(data)
        self.fs.names[path] = ino

    def keys(self):
        return list(self.fs.names.keys())

    def items(self):
        return [(p, self[p]) for p in self.fs.names]

    def pop(self, path):
        data = self[path]
        del self.fs.names[path]
        return data


class Crash(BaseException):
    """The simulated process dies here."""


class SimFS:
    def __init__(self, buffer_size: int = 64) -> None:
        self.files: dict[str, bytes] = _FileTable(self)
        self.names: dict[str, int] = {}  # path -> inode
        self.inodes: dict[int, bytearray] = {}
        self.next_inode = 1
        self.dirs: set[str] = {'/'}
        self.buffer_size = buffer_size
        self.step = 0
        self.plan = None  # (step number, 'before'|'after', 'crash'|'eio'|'enospc'[, (delta, 'before'|'after')])
        self.fired = None
        # a second fault chained to an I/O error: a crash `delta` steps after the step that failed (it only ever fires if the
        # code under test carries on after the error, e.g. on a fallback path)
        self.plan2 = None
        self.fired2 = None
        self.log: list[str] = []
        self.open_handles: list = []
        self.fds: dict[int, dict] = {}
        self.next_fd = 1000

    # ------------------------------------------------------------------ fault points
    def _point(self, name: str, when: str) -> None:
        if self.plan2 is not None and self.plan2[0] == self.step and self.plan2[1] == when:
            self.plan2 = None
            self.fired2 = (self.step, when, name)
            raise Crash(f'{when} step {self.step} ({name}), after an I/O error')
        if self.plan is not None and self.plan[0] == self.step and self.plan[1] == when and self.fired is None:
            self.fired = (self.step, when, name)
            kind = self.plan[2]
            if kind == 'crash':
                raise Crash(f'{when} step {self.step} ({name})')
            if len(self.plan) > 3 and self.plan[3]:
                self.plan2 = (self.step + self.plan[3][0], self.plan[3][1])
            code = errno.EIO if kind == 'eio' else errno.ENOSPC
            raise OSError(code, f'simulated {kind} {when} step {self.step} ({name})')

    def do(self, name: str, fn, error_after: bool = True):
        """Run one file-system step with its before/after fault points."""
        self.step += 1
        self.log.append(name)
        self._point(name, 'before')
        r = fn()
        # an error *after* a step is only meaningful as a crash (the step itself succeeded)
        if (self.plan is not None and self.plan[2] == 'crash') or self.plan2 is not None:
            self._point(name, 'after')
        return r

    def crash_cleanup(self) -> None:
        """What a process crash leaves behind: open handles and their buffers are gone."""
        self.open_handles.clear()
        self.fds.clear()

    # ------------------------------------------------------------------ primitives
    def exists(self, path: str) -> bool:
        return path in self.files or path in self.dirs

    def mkdir(self, path: str, parents: bool, exist_ok: bool) -> None:
        if path in self.dirs:
            if not exist_ok:
                raise FileExistsError(path)
            return
        parent = posixpath.dirname(path)
        if parent not in self.dirs:
            if not parents:
                raise FileNotFoundError(parent)
            self.mkdir(parent, True, True)
        self.dirs.add(path)

    def open(self, path, mode='r', encoding=None, **kw):
        binary = 'b' in mode
        if isinstance(path, int):
            # open(fd, mode): wrap a descriptor obtained from os.open (no truncation happens here)
            if path not in self.fds:
                raise OSError(errno.EBADF, 'bad file descriptor')
            ent = self.fds[path]
            if any(c in mode for c in 'wax+'):
                h = _Writer(self, ent['path'], ent['inode'], pos=ent['pos'], append=ent['append'], binary=binary, fd=path)
                self.open_handles.append(h)
                return h
            data = bytes(self.inodes[ent['inode']])
            return _Reader(data if binary else data.decode(encoding or 'utf-8'))
        path = str(path)
        if any(c in mode for c in 'wax'):
            def create():
                if posixpath.dirname(path) not in self.dirs:
                    raise FileNotFoundError(path)
                if 'x' in mode and path in self.names:
                    raise FileExistsError(path)
                if 'w' in mode or path not in self.names:
                    self.files[path] = b''
            self.do(f'open-{"w" if "w" in mode else ("a" if "a" in mode else "x")} {posixpath.basename(path)}', create)
            h = _Writer(self, path, self.names[path], append='a' in mode, binary=binary)
            self.open_handles.append(h)
            return h
        if path not in self.files:
            raise FileNotFoundError(path)
        if '+' in mode:
            h = _Writer(self, path, self.names[path], binary=binary)
            self.open_handles.append(h)
            return h
        data = self.files[path]
        return _Reader(data if binary else data.decode(encoding or 'utf-8'))

    # ------------------------------------------------------------------ descriptor-level calls (os.open and friends)
    def os_open(self, path, flags, mode=0o777, **kw):
        import os as _os
        path = str(path)

        def go():
            if posixpath.dirname(path) not in self.dirs:
                raise FileNotFoundError(path)
            if path in self.names:
                if flags & _os.O_CREAT and flags & _os.O_EXCL:
                    raise FileExistsError(path)
                if flags & _os.O_TRUNC and flags & (_os.O_WRONLY | _os.O_RDWR):
                    self.inodes[self.names[path]] = bytearray()
            else:
                if not flags & _os.O_CREAT:
                    raise FileNotFoundError(path)
                self.files[path] = b''
        self.do(f'os.open {posixpath.basename(path)}', go)
        self.next_fd += 1
        self.fds[self.next_fd] = {'path': path, 'inode': self.names[path], 'pos': 0, 'append': bool(flags & _os.O_APPEND)}
        return self.next_fd

    def os_write(self, fd, data) -> int:
        ent = self.fds.get(fd)
        if ent is None:
            raise OSError(errno.EBADF, 'bad file descriptor')
        data = bytes(data)

        def w():
            ino = self.inodes[ent['inode']]
            pos = len(ino) if ent['append'] else ent['pos']
            ino[pos:pos + len(data)] = data
            ent['pos'] = pos + len(data)
        self.do(f'os.write {posixpath.basename(ent["path"])}', w)
        return len(data)

    def os_close(self, fd) -> None:
        if fd not in self.fds:
            raise OSError(errno.EBADF, 'bad file descriptor')
        ent = self.fds.pop(fd)
        self.do(f'os.close {posixpath.basename(ent["path"])}', lambda: None)

    def os_fsync(self, fd) -> None:
        ent = self.fds.get(fd)
        name = posixpath.basename(ent['path']) if ent else str(fd)
        self.do(f'fsync {name}', lambda: None)  # the crash model already keeps every completed write

    def replace(self, src, dst) -> None:
        src, dst = str(src), str(dst)

        def go():
            if src not in self.names:
                raise FileNotFoundError(src)
            self.names[dst] = self.names.pop(src)  # same inode: an open writer keeps writing into it
        self.do(f'replace {posixpath.basename(src)}->{posixpath.basename(dst)}', go)


    def rename(self, src, dst) -> None:
        """os.rename: same atomic name swap as replace on POSIX."""
        src, dst = str(src), str(dst)

        def go():
            if src not in self.names:
                raise FileNotFoundError(src)
            self.names[dst] = self.names.pop(src)
        self.do(f'rename {posixpath.basename(src)}->{posixpath.basename(dst)}', go)

    def unlink(self, path, missing_ok: bool = False) -> None:
        path = str(path)

        def go():
            if path not in self.names:
                if missing_ok:
                    return
                raise FileNotFoundError(path)
            del self.names[path]  # an open writer keeps its inode
        self.do(f'unlink {posixpath.basename(path)}', go)


class _Reader:
    def __init__(self, data) -> None:
        self.data = data

    def read(self, n=-1):
        if n is None or n < 0:
            t, self.data = self.data, self.data[:0]
        else:
            t, self.data = self.data[:n], self.data[n:]
        return t

    def __enter__(self):
        return self

    def __exit__(self, *a):
        return False

    def close(self):
        pass


class _Writer:
    def __init__(self, fs: SimFS, path: str, inode: int, pos: int = 0, append: bool = False, binary: bool = False, fd=None) -> None:
        self.fs = fs
        self.path = path
        self.inode = inode
        self.buf = bytearray()
        self.closed = False
        self.pos = pos
        self.append = append
        self.binary = binary
        self.fd = fd

    def _put(self, chunk: bytes) -> None:
        ino = self.fs.inodes[self.inode]
        pos = len(ino) if self.append else self.pos
        ino[pos:pos + len(chunk)] = chunk  # in place: bytes beyond what is written stay (no implicit truncation)
        self.pos = pos + len(chunk)

    def write(self, s) -> int:
        self.buf += bytes(s) if self.binary else s.encode('utf-8')
        while len(self.buf) >= self.fs.buffer_size:
            chunk = bytes(self.buf[:self.fs.buffer_size])
            self.fs.do(f'write {posixpath.basename(self.path)}', lambda chunk=chunk: self._put(chunk))
            del self.buf[:len(chunk)]
        return len(s)

    def flush(self) -> None:
        if self.buf:
            chunk = bytes(self.buf)
            self.fs.do(f'flush {posixpath.basename(self.path)}', lambda: self._put(chunk))
            self.buf.clear()

    def fileno(self) -> int:
        if self.fd is None:
            self.fs.next_fd += 1
            self.fd = self.fs.next_fd
            self.fs.fds[self.fd] = {'path': self.path, 'inode': self.inode, 'pos': self.pos, 'append': self.append}
        return self.fd

    def truncate(self, size=None) -> int:
        self.flush()
        size = self.pos if size is None else size
        self.fs.do(f'truncate {posixpath.basename(self.path)}', lambda: self.fs.inodes[self.inode].__delitem__(slice(size, None)))
        return size

    def close(self) -> None:
        if self.closed:
            return
        self.flush()
        self.fs.do(f'close {posixpath.basename(self.path)}', lambda: None)
        self.closed = True
        if self.fd is not None:
            self.fs.fds.pop(self.fd, None)
        if self in self.fs.open_handles:
            self.fs.open_handles.remove(self)

    def __enter__(self):
        return self

    def __exit__(self, et, ev, tb):
        if et is not None and issubclass(et, Crash):
            return False  # a dead process closes nothing
        self.close()
        return False


class SimPath:
    def __init__(self, fs: SimFS, path: str) -> None:
        self.fs = fs
        self.path = posixpath.normpath(path if path.startswith('/') else '/' + path)

    def resolve(self):
        return self

    @property
    def parent(self):
        return SimPath(self.fs, posixpath.dirname(self.path))

    @property
    def name(self) -> str:
        return posixpath.basename(self.path)

    def with_name(self, name: str):
        return SimPath(self.fs, posixpath.join(posixpath.dirname(self.path), name))

    def __truediv__(self, other):
        return SimPath(self.fs, posixpath.join(self.path, str(other)))

    def exists(self) -> bool:
        return self.fs.do(f'exists {self.name}', lambda: self.fs.exists(self.path))

    def mkdir(self, parents=False, exist_ok=False) -> None:
        self.fs.do(f'mkdir {self.name}', lambda: self.fs.mkdir(self.path, parents, exist_ok))

    def unlink(self, missing_ok: bool = False) -> None:
        self.fs.unlink(self.path, missing_ok)

    def rename(self, target):
        self.fs.rename(self.path, str(target))
        return SimPath(self.fs, str(target))

    def replace(self, target):
        self.fs.replace(self.path, str(target))
        return SimPath(self.fs, str(target))

    def __str__(self) -> str:
        return self.path

    def __fspath__(self) -> str:
        return self.path

    def __eq__(self, other) -> bool:
        return str(self) == str(other)

    def __hash__(self) -> int:
        return hash(self.path)


class Unmodelled(Exception):
    """The code under test used a file-system call the simulated file system does not model: a harness limit, not a verdict."""


_PASS_THROUGH = {'path', 'fspath', 'fsencode', 'fsdecode', 'getpid', 'sep', 'linesep', 'urandom', 'environ', 'getenv', 'PathLike', 'name', 'curdir', 'pardir', 'devnull',
                 'getuid', 'getcwd', 'umask', 'error', 'strerror'}


class _FakeOs:
    def __init__(self, fs: SimFS) -> None:
        self._fs = fs
        self.replace = fs.replace
        self.rename = fs.rename
        self.remove = fs.unlink
        self.unlink = fs.unlink
        self.open = fs.os_open
        self.write = fs.os_write
        self.close = fs.os_close
        self.fsync = fs.os_fsync
        self.fdatasync = fs.os_fsync
        self.fdopen = lambda fd, mode='r', *a, **kw: fs.open(fd, mode, **kw)
        self.makedirs = lambda p, mode=0o777, exist_ok=False: fs.do(f'mkdir {posixpath.basename(str(p))}', lambda: fs.mkdir(str(p), True, exist_ok))
        self.mkdir = lambda p, mode=0o777: fs.do(f'mkdir {posixpath.basename(str(p))}', lambda: fs.mkdir(str(p), False, False))
        self.chmod = lambda *a, **kw: None
        self.fchmod = lambda *a, **kw: None

    def __getattr__(self, name):
        import os as _os
        if name.startswith('O_') or name.startswith('SEEK_') or name in _PASS_THROUGH:
            return getattr(_os, name)
        if name.startswith('__'):
            raise AttributeError(name)

        def unmodelled(*a, **kw):
            raise Unmodelled(f'os.{name} is not modelled by the simulated file system')
        return unmodelled


class _FakePathlib:
    def __init__(self, fs: SimFS) -> None:
        self.Path = lambda p: SimPath(fs, str(p))


def install(fs: SimFS):
    """Point bumble.keys' module globals at the SimFS. Returns an undo function."""
    from bumble import keys

    saved = {k: keys.__dict__.get(k, _MISSING) for k in ('open', 'os', 'pathlib')}
    keys.open = fs.open
    keys.os = _FakeOs(fs)
    keys.pathlib = _FakePathlib(fs)

    def undo():
        for k, v in saved.items():
            if v is _MISSING:
                keys.__dict__.pop(k, None)
            else:
                setattr(keys, k, v)

    return undo


_MISSING = object()
