"""SimFS: an in-memory file system behind bumble.keys' module-level open / os / pathlib, with the
process-crash model: completed write() calls reach the file only when the user-space buffer is flushed
(buffer full, flush or close); os.replace is atomic; a crash discards open handles with their unflushed
buffers and keeps everything else. Every file-system step is a numbered crash / error point."""
from __future__ import annotations

import errno
import posixpath


class _FileTable:
    """dict-like view path -> bytes over the inode table (what a directory listing + read would show)."""

    def __init__(self, fs) -> None:
        self.fs = fs

    def __contains__(self, path) -> bool:
        return path in self.fs.names

    def __getitem__(self, path) -> bytes:
        return bytes(self.fs.inodes[self.fs.names[path]])

    def get(self, path, default=None):
        return self[path] if path in self else default

    def __setitem__(self, path, data: bytes) -> None:
        ino = self.fs.next_inode
        self.fs.next_inode += 1
        self.fs.inodes[ino] = bytearray(data)
        self.fs.names[path] = ino

    def keys(self):
        return list(self.fs.names.keys())

    def items(self):
        return [(p, self[p]) for p in self.fs.names]

    def pop(self, path):
        data = self[path]
        del self.fs.names[path]
        return data


class Crash(BaseException):
    """The simulated process dies here."""


class SimFS:
    def __init__(self, buffer_size: int = 64) -> None:
        self.files: dict[str, bytes] = _FileTable(self)
        self.names: dict[str, int] = {}  # path -> inode
        self.inodes: dict[int, bytearray] = {}
        self.next_inode = 1
        self.dirs: set[str] = {'/'}
        self.buffer_size = buffer_size
        self.step = 0
        self.plan = None  # (step number, 'before'|'after', 'crash'|'eio'|'enospc')
        self.fired = None
        self.log: list[str] = []
        self.open_handles: list = []

    # ------------------------------------------------------------------ fault points
    def _point(self, name: str, when: str) -> None:
        if self.plan is not None and self.plan[0] == self.step and self.plan[1] == when and self.fired is None:
            self.fired = (self.step, when, name)
            kind = self.plan[2]
            if kind == 'crash':
                raise Crash(f'{when} step {self.step} ({name})')
            code = errno.EIO if kind == 'eio' else errno.ENOSPC
            raise OSError(code, f'simulated {kind} {when} step {self.step} ({name})')

    def do(self, name: str, fn, error_after: bool = True):
        """Run one file-system step with its before/after fault points."""
        self.step += 1
        self.log.append(name)
        self._point(name, 'before')
        r = fn()
        # an error *after* a step is only meaningful as a crash (the step itself succeeded)
        if self.plan is not None and self.plan[2] == 'crash':
            self._point(name, 'after')
        return r

    def crash_cleanup(self) -> None:
        """What a process crash leaves behind: open handles and their buffers are gone."""
        self.open_handles.clear()

    # ------------------------------------------------------------------ primitives
    def exists(self, path: str) -> bool:
        return path in self.files or path in self.dirs

    def mkdir(self, path: str, parents: bool, exist_ok: bool) -> None:
        if path in self.dirs:
            if not exist_ok:
                raise FileExistsError(path)
            return
        parent = posixpath.dirname(path)
        if parent not in self.dirs:
            if not parents:
                raise FileNotFoundError(parent)
            self.mkdir(parent, True, True)
        self.dirs.add(path)

    def open(self, path, mode='r', encoding=None, **kw):
        path = str(path)
        if 'w' in mode:
            def create():
                if posixpath.dirname(path) not in self.dirs:
                    raise FileNotFoundError(path)
                self.files[path] = b''
            self.do(f'open-w {posixpath.basename(path)}', create)
            h = _Writer(self, path, self.names[path])
            self.open_handles.append(h)
            return h
        if path not in self.files:
            raise FileNotFoundError(path)
        return _Reader(self.files[path].decode(encoding or 'utf-8'))

    def replace(self, src, dst) -> None:
        src, dst = str(src), str(dst)

        def go():
            if src not in self.names:
                raise FileNotFoundError(src)
            self.names[dst] = self.names.pop(src)  # same inode: an open writer keeps writing into it
        self.do(f'replace {posixpath.basename(src)}->{posixpath.basename(dst)}', go)


    def rename(self, src, dst) -> None:
        """os.rename: same atomic name swap as replace on POSIX."""
        src, dst = str(src), str(dst)

        def go():
            if src not in self.names:
                raise FileNotFoundError(src)
            self.names[dst] = self.names.pop(src)
        self.do(f'rename {posixpath.basename(src)}->{posixpath.basename(dst)}', go)

    def unlink(self, path, missing_ok: bool = False) -> None:
        path = str(path)

        def go():
            if path not in self.names:
                if missing_ok:
                    return
                raise FileNotFoundError(path)
            del self.names[path]  # an open writer keeps its inode
        self.do(f'unlink {posixpath.basename(path)}', go)


class _Reader:
    def __init__(self, text: str) -> None:
        self.text = text

    def read(self, n=-1):
        t, self.text = self.text, ''
        return t

    def __enter__(self):
        return self

    def __exit__(self, *a):
        return False

    def close(self):
        pass


class _Writer:
    def __init__(self, fs: SimFS, path: str, inode: int) -> None:
        self.fs = fs
        self.path = path
        self.inode = inode
        self.buf = bytearray()
        self.closed = False

    def write(self, s: str) -> int:
        self.buf += s.encode('utf-8')
        while len(self.buf) >= self.fs.buffer_size:
            chunk = bytes(self.buf[:self.fs.buffer_size])

            def w(chunk=chunk):
                self.fs.inodes[self.inode] += chunk
            self.fs.do(f'write {posixpath.basename(self.path)}', w)
            del self.buf[:len(chunk)]
        return len(s)

    def flush(self) -> None:
        if self.buf:
            chunk = bytes(self.buf)

            def w():
                self.fs.inodes[self.inode] += chunk
            self.fs.do(f'flush {posixpath.basename(self.path)}', w)
            self.buf.clear()

    def close(self) -> None:
        if self.closed:
            return
        self.flush()
        self.fs.do(f'close {posixpath.basename(self.path)}', lambda: None)
        self.closed = True
        if self in self.fs.open_handles:
            self.fs.open_handles.remove(self)

    def __enter__(self):
        return self

    def __exit__(self, et, ev, tb):
        if et is not None and issubclass(et, Crash):
            return False  # a dead process closes nothing
        self.close()
        return False


class SimPath:
    def __init__(self, fs: SimFS, path: str) -> None:
        self.fs = fs
        self.path = posixpath.normpath(path if path.startswith('/') else '/' + path)

    def resolve(self):
        return self

    @property
    def parent(self):
        return SimPath(self.fs, posixpath.dirname(self.path))

    @property
    def name(self) -> str:
        return posixpath.basename(self.path)

    def with_name(self, name: str):
        return SimPath(self.fs, posixpath.join(posixpath.dirname(self.path), name))

    def __truediv__(self, other):
        return SimPath(self.fs, posixpath.join(self.path, str(other)))

    def exists(self) -> bool:
        return self.fs.do(f'exists {self.name}', lambda: self.fs.exists(self.path))

    def mkdir(self, parents=False, exist_ok=False) -> None:
        self.fs.do(f'mkdir {self.name}', lambda: self.fs.mkdir(self.path, parents, exist_ok))

    def unlink(self, missing_ok: bool = False) -> None:
        self.fs.unlink(self.path, missing_ok)

    def rename(self, target):
        self.fs.rename(self.path, str(target))
        return SimPath(self.fs, str(target))

    def replace(self, target):
        self.fs.replace(self.path, str(target))
        return SimPath(self.fs, str(target))

    def __str__(self) -> str:
        return self.path

    def __fspath__(self) -> str:
        return self.path

    def __eq__(self, other) -> bool:
        return str(self) == str(other)

    def __hash__(self) -> int:
        return hash(self.path)


class _FakeOs:
    def __init__(self, fs: SimFS) -> None:
        self.replace = fs.replace
        self.rename = fs.rename
        self.remove = fs.unlink
        self.unlink = fs.unlink


class _FakePathlib:
    def __init__(self, fs: SimFS) -> None:
        self.Path = lambda p: SimPath(fs, str(p))


def install(fs: SimFS):
    """Point bumble.keys' module globals at the SimFS. Returns an undo function."""
    from bumble import keys

    saved = {k: keys.__dict__.get(k, _MISSING) for k in ('open', 'os', 'pathlib')}
    keys.open = fs.open
    keys.os = _FakeOs(fs)
    keys.pathlib = _FakePathlib(fs)

    def undo():
        for k, v in saved.items():
            if v is _MISSING:
                keys.__dict__.pop(k, None)
            else:
                setattr(keys, k, v)

    return undo


_MISSING = object()
