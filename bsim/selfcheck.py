"""setup_cmd: imports bumble from the tree under test, runs a few seeds twice, compares digests."""
from __future__ import annotations

import importlib
import sys


def main() -> int:
    import bumble

    print('bumble from', bumble.__file__)
    from . import rng, runner

    mod = importlib.import_module('props.c04')
    bad = 0
    for i in range(20):
        seed = rng.sub_seed(1, f'selfcheck/{i}')
        for scen, (gen, _run) in mod.SCENARIOS.items():
            case = gen(rng.derive(seed, 'gen'), 'quick', seed, i) if getattr(gen, 'wants_index', False) else gen(rng.derive(seed, 'gen'), 'quick', seed)
            case['scenario'] = scen
            case['seed'] = seed
            case = runner.normalise(case)
            a = runner.run_case(mod, case)
            b = runner.run_case(mod, case)
            if a['harness_error'] or b['harness_error'] or a.get('digest') != b.get('digest'):
                print('SELFCHECK mismatch', scen, seed, a.get('harness_error'), a.get('digest'), b.get('digest'))
                bad += 1
    print('selfcheck', 'FAILED' if bad else 'ok')
    return 1 if bad else 0


if __name__ == '__main__':
    sys.exit(main())
