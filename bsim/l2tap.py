"""Independent L2CAP reassembly from the ACL packets crossing one node's HCI boundary (a wire tap).

direction 'out' = host -> controller (what this node sends), 'in' = controller -> host (what it receives).
Written from the HCI/L2CAP packet formats, not from bumble's codecs.
"""
from __future__ import annotations

import struct


class L2capTap:
    def __init__(self, sim, node, on_pdu) -> None:
        self.sim = sim
        self.node = node
        self.on_pdu = on_pdu  # fn(direction, handle, cid, payload)
        self.out_chan = f'{node.name}.h2c'
        self.in_chan = f'{node.name}.c2h'
        self.buf = {}  # (direction, handle) -> bytearray
        sim.monitors.append(self._tap)

    def _tap(self, chan, direction, data) -> None:
        if chan == self.out_chan and direction == 'tx':
            d = 'out'
        elif chan == self.in_chan and direction == 'rx':
            d = 'in'
        else:
            return
        if not data or data[0] != 0x02 or len(data) < 5:
            return
        hf, ln = struct.unpack_from('<HH', data, 1)
        handle, pb = hf & 0x0FFF, (hf >> 12) & 3
        body = data[5:5 + ln]
        key = (d, handle)
        if pb in (0, 2):
            self.buf[key] = bytearray(body)
        elif pb == 1:
            if key not in self.buf:
                return
            self.buf[key] += body
        else:
            return
        b = self.buf[key]
        if len(b) < 4:
            return
        plen, cid = struct.unpack_from('<HH', b, 0)
        if len(b) >= plen + 4:
            payload = bytes(b[4:4 + plen])
            del self.buf[key]
            self.on_pdu(d, handle, cid, payload)
