"""Generated GATT databases: a JSON-able description, a builder that adds it to a bumble server, and an
independent layout calculator (handles, group ends, declarations) written from Core Vol 3 Part G."""
from __future__ import annotations

P_READ, P_WWR, P_WRITE, P_NOTIFY, P_INDICATE = 0x02, 0x04, 0x08, 0x10, 0x20
PERM_R, PERM_W = 0x01, 0x02


def _uuid(rng, width=None):
    width = width or rng.choice([16, 16, 128])
    if width == 16:
        return '%04X' % rng.randrange(0xF000, 0xFFF0)
    if width == 32:
        return '%08X' % rng.randrange(0x00010000, 0xFFFFFFF0)
    b = bytes(rng.getrandbits(8) for _ in range(16))
    h = b.hex().upper()
    return f'{h[0:8]}-{h[8:12]}-{h[12:16]}-{h[16:20]}-{h[20:32]}'


def gen_db(rng, max_services=4, max_chars=4, value_lens=None, perms_pool=None, mtu_hint=23, callbacks=True, uuid32=False):
    value_lens = value_lens or [0, 1, 2, 20, mtu_hint - 3, mtu_hint - 2, mtu_hint - 1, mtu_hint, 2 * (mtu_hint - 1), 100, 512]
    perms_pool = perms_pool or [PERM_R | PERM_W]
    services = []
    canary = [0]

    def value(n):
        canary[0] += 1
        tag = b'%03d#' % canary[0]
        v = (tag * (n // len(tag) + 1))[:n]
        return v

    for si in range(rng.randint(1, max_services)):
        chars = []
        for _ in range(rng.randint(0, max_chars)):
            props = rng.choice([P_READ, P_READ | P_WRITE, P_READ | P_WRITE | P_NOTIFY, P_READ | P_INDICATE, P_WRITE, P_WWR | P_WRITE,
                                P_READ | P_NOTIFY | P_INDICATE, P_NOTIFY])
            descs = []
            for _ in range(rng.choice([0, 0, 1, 2])):
                descs.append({'uuid': _uuid(rng, rng.choice([16, 16, 128])), 'perms': rng.choice(perms_pool), 'value': value(rng.choice([0, 1, 5, 30]))})
            chars.append({
                'uuid': _uuid(rng), 'props': props, 'perms': rng.choice(perms_pool),
                'value': value(max(0, min(512, rng.choice(value_lens)))),
                'kind': rng.choice(['static', 'static', 'sync_cb', 'async_cb']) if callbacks else 'static',
                'delay': rng.choice([0.0, 0.001, 0.05]), 'descs': descs,
            })
        includes = [j for j in range(si) if rng.random() < 0.2]
        # (a 32-bit service UUID travels as its 128-bit expansion; the application and the client API may use the short form)
        services.append({'uuid': _uuid(rng, 32) if uuid32 and rng.random() < 0.25 else _uuid(rng), 'primary': rng.random() < 0.85, 'includes': includes, 'chars': chars})
    return {'services': services}


class BuiltDb:
    def __init__(self):
        self.values = {}  # value-attribute handle -> dict(value=bytearray(...)) shared with the callbacks
        self.attrs = []  # list of dicts: handle, kind ('service','include','chardecl','value','desc','cccd'), perms, ref
        self.char_objs = {}  # (si, ci) -> bumble Characteristic
        self.services = []


def build(device, desc, loop=None) -> BuiltDb:
    """Add the described services to device.gatt_server (real bumble objects)."""
    import asyncio

    from bumble import att, gatt

    out = BuiltDb()
    svc_objs = []
    for si, s in enumerate(desc['services']):
        chars = []
        for ci, c in enumerate(s['chars']):
            cell = {'value': bytes(c['value'])}
            descriptors = [gatt.Descriptor(d['uuid'], att.Attribute.Permissions(d['perms']), bytes(d['value'])) for d in c['descs']]
            if c['kind'] in ('static', 'typed'):
                val = bytes(c['value'])
            elif c['kind'] == 'raising_cb':
                # an application whose value functions fail: the peer's request still has to be answered
                def bad_read(conn):
                    raise ValueError('application read function failed')

                def bad_write(conn, v):
                    raise ValueError('application write function failed')
                val = gatt.CharacteristicValue(read=bad_read, write=bad_write)
            elif c['kind'] == 'raising_async_cb':
                # the same, failing only once the coroutine runs
                async def bad_aread(conn, delay=c.get('delay', 0)):
                    if delay:
                        await asyncio.sleep(delay)
                    raise ValueError('application read coroutine failed')

                async def bad_awrite(conn, v, delay=c.get('delay', 0)):
                    if delay:
                        await asyncio.sleep(delay)
                    raise ValueError('application write coroutine failed')
                val = gatt.CharacteristicValue(read=bad_aread, write=bad_awrite)
            elif c['kind'] == 'sync_cb':
                val = gatt.CharacteristicValue(read=lambda conn, cell=cell: cell['value'],
                                               write=lambda conn, v, cell=cell: cell.__setitem__('value', bytes(v)))
            else:
                async def rd(conn, cell=cell, delay=c['delay']):
                    if delay:
                        await asyncio.sleep(delay)
                    return cell['value']

                async def wr(conn, v, cell=cell, delay=c['delay']):
                    if delay:
                        await asyncio.sleep(delay)
                    cell['value'] = bytes(v)

                val = gatt.CharacteristicValue(read=rd, write=wr)
            if c['kind'] == 'typed':
                from bumble import gatt_adapters
                ch = gatt_adapters.UTF8CharacteristicAdapter(gatt.Characteristic(c['uuid'], gatt.Characteristic.Properties(c['props']), att.Attribute.Permissions(c['perms']),
                                                                                  'text ' + bytes(c['value']).hex()[:40], descriptors))
            else:
                ch = gatt.Characteristic(c['uuid'], gatt.Characteristic.Properties(c['props']), att.Attribute.Permissions(c['perms']), val, descriptors)
            ch._cell = cell
            chars.append(ch)
            out.char_objs[(si, ci)] = ch
        svc = gatt.Service(s['uuid'], chars, primary=s['primary'], included_services=[svc_objs[j] for j in s['includes']])
        if s.get('decl_perms') is not None:
            # the application restricts the service declaration itself (assigned after construction: the constructor fixes READABLE)
            svc.permissions = att.Attribute.Permissions(s['decl_perms'])
        svc_objs.append(svc)
    # add in index order; services already pulled in as an include are skipped by bumble itself
    for svc in svc_objs:
        if svc not in device.gatt_server.services:
            device.gatt_server.add_service(svc)
    out.services = svc_objs
    return out


def current_value(ch) -> bytes:
    """Ground-truth current value of a generated characteristic on the server side."""
    from bumble import att

    if isinstance(ch.value, (att.AttributeValue, att.AttributeValueV2)):
        return ch._cell['value']
    if isinstance(ch.value, str):  # a text characteristic behind an adapter
        return ch.value.encode('utf-8')
    return bytes(ch.value) if ch.value is not None else b''


def uuid_bytes(u: str) -> bytes:
    """Little-endian wire form of a UUID given as 4 hex digits or 8-4-4-4-12."""
    if len(u) in (4, 8):
        return bytes.fromhex(u)[::-1]
    return bytes.fromhex(u.replace('-', ''))[::-1]


def expected_layout(desc, first_handle: int):
    """Independent handle layout of the described services appended after first_handle-1.

    Returns a list of services: dict(handle, end, uuid(bytes LE), primary, includes=[(handle, inc_start, inc_end, uuid)],
    chars=[dict(decl, value_handle, end, uuid, props, descs=[(handle, uuid16_or_128 bytes)], cccd=handle|None)]).
    Mirrors bumble's registration order: a service that is first reached as an include of a later one is never the
    case here because includes only point backwards.
    """
    h = first_handle
    out = []
    for s in desc['services']:
        svc = {'handle': h, 'uuid': uuid_bytes(s['uuid']), 'primary': s['primary'], 'includes': [], 'chars': []}
        h += 1
        for j in s['includes']:
            inc = out[j]
            svc['includes'].append({'handle': h, 'start': inc['handle'], 'end': inc['end'], 'uuid': inc['uuid']})
            h += 1
        for c in s['chars']:
            ch = {'decl': h, 'value_handle': h + 1, 'uuid': uuid_bytes(c['uuid']), 'props': c['props'], 'descs': [], 'cccd': None}
            h += 2
            for d in c['descs']:
                ch['descs'].append({'handle': h, 'uuid': uuid_bytes(d['uuid'])})
                h += 1
            if c['props'] & (P_NOTIFY | P_INDICATE):
                ch['cccd'] = h
                ch['descs'].append({'handle': h, 'uuid': bytes.fromhex('0229')})
                h += 1
            ch['end'] = h - 1
            svc['chars'].append(ch)
        svc['end'] = h - 1
        out.append(svc)
    return out


def uuid_bytes_from_obj(u) -> bytes:
    return bytes(u.to_pdu_bytes())
