"""One integer decides everything: derive independent PRNG streams from a run seed."""
from __future__ import annotations

import hashlib
import random


def derive(seed: int, label: str) -> random.Random:
    h = hashlib.sha256(f'{seed}|{label}'.encode()).digest()
    return random.Random(int.from_bytes(h[:16], 'big'))


def sub_seed(seed: int, label) -> int:
    h = hashlib.sha256(f'{seed}|{label}'.encode()).digest()
    return int.from_bytes(h[:8], 'big') >> 1


def hash_unit(seed: int, *parts) -> float:
    """Stateless uniform [0,1) from (seed, parts): removing one message while shrinking does not
    reshuffle unrelated delays."""
    h = hashlib.blake2b(repr((seed,) + parts).encode(), digest_size=8).digest()
    return int.from_bytes(h, 'big') / 2**64


class SeededSecrets:
    """PRNG-backed replacements for secrets.token_bytes / randbelow and EccKey.generate."""

    def __init__(self, seed: int) -> None:
        self.rng = derive(seed, 'secrets')

    def token_bytes(self, n: int = 32) -> bytes:
        return bytes(self.rng.getrandbits(8) for _ in range(n))

    def randbelow(self, n: int) -> int:
        return self.rng.randrange(n)
